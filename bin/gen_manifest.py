#!/usr/bin/env python3
"""Regenerate MANIFEST.json from bin/checks_config.py (+ not_applicable.json)."""
import json, os, sys
V = os.path.dirname(os.path.dirname(os.path.abspath(__file__)))
sys.path.insert(0, os.path.join(V, "bin"))
from checks_config import CHECKS
hooks_commits = json.load(open(os.path.join(V, "hooks.json"))) if os.path.exists(os.path.join(V, "hooks.json")) else []
na_path = os.path.join(V, "not_applicable.json")
na = json.load(open(na_path)) if os.path.exists(na_path) else []
props = [json.loads(l) for l in open(os.path.join(V, "properties.jsonl"))]
ids = [p["id"] for p in props]
checks = []
for pid in ids:
    if pid not in CHECKS:
        continue
    c = CHECKS[pid]
    checks.append({
        "property_id": pid,
        "quick_cmd": "bin/check %s --tier quick" % pid,
        "thorough_cmd": "bin/check %s --tier thorough" % pid,
        "evidence_file": "/verif/evidence/%s.json" % pid,
        "replay_cmd_template": "bin/check %s --replay {path}" % pid,
        "engine": "rapid-harness",
        "level_claimed": {"category": c.get("level", "exploration"), "text": c["level_text"], "design_ref": "DESIGN.md section 3, " + pid},
        "level_note": c["level_note"],
        "technique": c["technique"],
    })
claimed = {c["property_id"] for c in checks}
na_ids = {n["property_id"] for n in na}
for pid in ids:
    if pid not in claimed and pid not in na_ids:
        na.append({"property_id": pid, "reason": "check not built yet in this round (planned: property-based check per DESIGN.md section 3)"})
na = [n for n in na if n["property_id"] not in claimed]
m = {
    "version": 1,
    "setup_cmd": "bin/setup",
    "hooks": {
        "guard": "verif",
        "enable": "go test -c -tags verif -overlay=<harness files> -modfile=<go.mod + rapid> (built by bin/check from /repo's working tree)",
        "baseline_off_cmd": "cd /repo && GOFLAGS=-mod=mod GOPROXY=off GOSUMDB=off go test -vet=off -count=1 -timeout 25m ./...",
        "source_commits": hooks_commits,
        "add_only": True,
    },
    "engines": [
        {"name": "rapid-harness", "path": "/verif/bin/check", "serves_properties": sorted(claimed),
         "kind_free_text": "pgregory.net/rapid v1.3.0 generators + explicit oracles, injected into the real packages with go's -overlay; "
                           "16 seeded shards per run; native go fuzzing and the race detector as additional engines where stated"},
    ],
    "checks": checks,
    "not_applicable": na,
    "notes": "Every check rebuilds its test binary from /repo's working tree. VERIF_SEED selects the PRNG seed of all shards. "
             "known_findings.json lists repaired (fixed:) and recorded (known) defects; see DESIGN.md.",
}
json.dump(m, open(os.path.join(V, "MANIFEST.json"), "w"), indent=1)
print("MANIFEST.json: %d checks, %d not_applicable" % (len(checks), len(na)))
