"""C15 orchestration: rapid checks in both tiers; coverage-guided native fuzz campaigns in the thorough tier."""
import glob, json, os, re, subprocess, time


def run(ctx, drv):
    pid, cfg, tier, seed, work = ctx["pid"], ctx["cfg"], ctx["tier"], ctx["seed"], ctx["work"]
    binp = drv.build(work, cfg)
    pre, extra = [], {}
    if tier == "thorough":
        fbin = drv.build(work, cfg, fuzz="FuzzVerifReadPacket")
        secs = int(cfg["thorough"].get("fuzz_seconds", 100) * ctx.get("scale", 1.0)) or 1
        campaigns = []
        for name, env_extra in (("empty-corpus", {"VERIF_C15_NOSEEDS": "1"}),
                                ("valid+hostile-seeds", {}),
                                ("seeds+saved-corpus", {"VERIF_C15_CORPUS": os.path.join(drv.VERIF, "corpus", "C15")})):
            cwd = os.path.join(work, "fuzz-" + name)
            os.makedirs(cwd, exist_ok=True)
            env = drv.run_env(work, "fuzz", cfg, env_extra)
            cmd = [fbin, "-test.run", "^$", "-test.fuzz", "^FuzzVerifReadPacket$", "-test.fuzztime", "%ds" % secs,
                   "-test.fuzzcachedir", os.path.join(cwd, "cache"), "-test.parallel", "16", "-test.timeout", "%ds" % (secs + 600)]
            t0 = time.time()
            try:
                p = subprocess.run(cmd, cwd=cwd, env=env, stdout=subprocess.PIPE, stderr=subprocess.STDOUT, text=True, timeout=secs + 900)
                out = p.stdout
            except subprocess.TimeoutExpired as e:
                out = (e.stdout or b"").decode(errors="replace") if isinstance(e.stdout, bytes) else (e.stdout or "")
            open(os.path.join(cwd, "fuzz.log"), "w").write(out)
            m = re.findall(r"execs: (\d+).*?new interesting: (\d+) \(total: (\d+)\)", out)
            execs, newi, tot = (int(m[-1][0]), int(m[-1][1]), int(m[-1][2])) if m else (0, 0, 0)
            campaigns.append({"corpus": name, "seconds": round(time.time() - t0, 1), "execs": execs, "new_interesting": newi, "corpus_total": tot})
            ms = re.search(r"VERIF-FAIL id=C15 sig=(\S+) input=([0-9a-f]*):", out)
            if ms or re.search(r"^(panic:|fatal error:)", out, re.M):
                sig = ms.group(1) if ms else drv.crash_sig(out)
                rp = os.path.join(work, "crash-%s.json" % name)
                if ms:
                    json.dump({"id": "C15RAW", "case": {"hex": ms.group(2)}, "sig": sig, "msg": out[-2500:]}, open(rp, "w"))
                    dst = drv.save_found(pid, rp)
                else:
                    dst = os.path.join(cwd, "fuzz.log")
                k = drv.sig_known(ctx["known"], pid, sig)
                if k:
                    print("KNOWN-FINDING: property=%s %s" % (pid, k.get("what", sig)), flush=True)
                else:
                    pre.append((sig, dst, out[-2500:]))
        extra["native_fuzz_campaigns"] = campaigns
        extra["native_fuzz_execs"] = sum(c["execs"] for c in campaigns)
    return drv.standard_run(pid, cfg, tier, seed, work, ctx["known"], ctx["t0"], binp, None, ctx.get("scale", 1.0),
                            extra_evidence=extra, pre_violations=pre)
