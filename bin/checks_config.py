"""Per-property configuration of the generated-input checks (see DESIGN.md section 3)."""

CHECKS = {
    "C18": dict(
        rule_more='The reading end may detach (Close) and attach again (Open) with unread data in the ring.',
        pkg="./ringbuffer", hdir="ringbuffer", test="TestVerif_C18",
        quick=dict(shards=16, checks=60000, timeout=300),
        thorough=dict(shards=16, checks=1200000, timeout=5400),
        technique="stateful property-based testing (rapid) against a reference FIFO model",
        level_text="Generated operation histories on the real shm-backed ring (writer+reader objects) are compared step by step with a "
                   "reference queue; every byte returned is checked against the absolute position it must come from, so loss, duplication "
                   "and reordering across the wrap point and at the full/empty boundaries are decided for every history explored. "
                   "Exploration, not proof: ~3e5 (quick) / ~6e6 (thorough) histories.",
        level_note="Trusts the harness' position-pattern oracle and the kernel's shm/mmap; single reader and writer, no concurrency.",
        rule="rapid-generated histories (1-40 ops) of Write/Read/ReadMultipleOf/ReadAll/DiscardStride/DiscardAll on a "
             "Create()d writer and an Open()ed reader of one shm ring (sizes 2..4096 incl. primes and powers of two), compared with a "
             "reference queue of absolute positions; non-trivial = some read wrapped the end of the buffer AND the buffer was exactly "
             "full or exactly empty (after holding data) at some step; distinct = distinct FNV-64 of the generated case",
        assumptions=["single-threaded use of writer and reader (no concurrent writer while reading)",
                     "a Read/ReadMultipleOf may legitimately return fewer bytes than are readable; only ReadAll must return all"],
    ),
    "C12": dict(
        rule_more='(D) builds its group either with NewAbacoGroup or through a real AbacoSource (Configure with the options, then the sampling step of Start on a scripted packet producer), optionally with a ConfigureAbacoSource request for other options arriving - and being refused - while the sampling step runs. (D) in source mode the options may be sent with the ConfigureAbacoSource request of a real SourceControl after an earlier accepted request (also: every option zero), and a second channel group with inverted channels may be discovered first.',
        pkg=".", hdir="root", test="TestVerif_C12(Demux|Roach)?", ids=["C12", "C12D", "C12R"],
        quick=dict(shards=16, checks=1, per_test={"TestVerif_C12": 150000, "TestVerif_C12Demux": 40000, "TestVerif_C12Roach": 12}, timeout=300),
        thorough=dict(shards=16, checks=1, per_test={"TestVerif_C12": 4000000, "TestVerif_C12Demux": 1000000, "TestVerif_C12Roach": 400}, timeout=5400),
        technique="property-based testing (rapid): integer reference model of the statement + metamorphic split-into-calls relation; differential data path (multi-channel demuxData) vs. one unwrapper per channel",
        rule="(R) the ROACH data path: a real RoachDevice on a loopback port, sampled and then read by its real readPackets loop while the harness "
             "sends 2-3 bursts (each becomes a block); the concatenated blocks must equal one unwrapper over each channel's whole sequence. "
             "(D) the Abaco data path: groups of 1-40 channels (around GOMAXPROCS, which is part of the case: 1-16) built by NewAbacoGroup with generated "
             "inversion lists (first/last channel of the group, inside, outside), packets of 1-6 frames pushed through the real demuxData in generated "
             "call splits, every channel compared with one unwrapper over the whole channel. (main) rapid-generated option sets as the real callers build them (NewAbacoGroup: rescale/unwrap/bias/pulse sign/reset interval/"
             "inversion; RoachDevice.samplePacket: 14 fraction bits, drop 2, bias on/off) x 16-bit sequences made of 1-6 segments "
             "(constant, slow/fast ramps with wraps, steps near half a quantum and near the biased window edges, arbitrary jitter; "
             "occasionally longer than the reset interval) x a split into calls; non-trivial = at least one wrap was removed AND the "
             "sequence was split into >= 2 calls; distinct = distinct FNV-64 of the generated case",
        level_text="Every output sample of the real unwrapper (obtained through the real Abaco/ROACH call sites) is checked against an "
                   "integer reference of the statement: congruence modulo one quantum, step within half a quantum (+1 LSB) of the documented "
                   "bias (0 or +-0.38 quantum), legitimate-reset discipline (run of N or N-1 samples away from home, never longer), and "
                   "one-call == split-calls. Exploration over ~1e5 (quick) / ~3e6 (thorough) sequences. The data-path harness requires every "
                   "channel of a multi-channel group, demultiplexed and unwrapped by the real demuxData in several calls, to be bit-identical to a "
                   "single unwrapper (public constructor, inversion decided by the harness) run once over that channel.",
        level_note="Bias is taken from the documentation (0.38 quantum, sign = pulse sign), not from the constructor arithmetic; the home "
                   "offset is read from a fresh unwrapper fed one zero sample; both readings of 'after N samples' (N or N-1) are accepted.",
        assumptions=["option sets are restricted to those real callers can construct", "1 LSB tolerance on the window absorbs floor vs. round of the bias"],
    ),
    "C13": dict(
        rule_more='A third of the models reach the channel as a client sends them (base64 text through SourceControl.ConfigureProjectorsBasis), optionally replacing an earlier model (2.5 x the projectors with the same basis, everything negated, another number of bases), with projector entries of the order 1e-7 and square models (bases = samples).',
        pkg=".", hdir="root", test="TestVerif_C13",
        quick=dict(shards=16, checks=10000, timeout=300),
        thorough=dict(shards=16, checks=300000, timeout=5400),
        technique="property-based testing (rapid) against an extended-precision (300-bit big.Float) reference with a-priori rounding bounds",
        rule="rapid-generated records (pretrigger 3..256, 1..1021 post-trigger samples; constant, full-scale, alternating extremes, pulses that "
             "wrap the signed range, noise around 32768, sloped baselines, arbitrary values; signed or unsigned) with or without 1-6 basis "
             "projectors/basis of compatible shape (entries finite, |x| from 1e-6 to 1e3, incl. zeros) installed via SetProjectorsBasis; "
             "non-trivial = record not constant AND (signed with negative samples OR projectors present); distinct = FNV-64 of the case",
        level_text="AnalyzeData's seven outputs are compared with their mathematical definitions evaluated in 300-bit arithmetic; the accepted "
                   "error is the a-priori bound of a straightforward float64 evaluation (gamma_n x sum of |terms|), so a wrong index range, "
                   "wrong normalisation, signedness slip or wrong matrix orientation is decided for every record explored, while legitimate "
                   "rounding (including RMS cancellation on constant full-scale records) is accepted.",
        level_note="NaN RMS is accepted only when the true mean square lies within the rounding bound of zero; a peak below the baseline may "
                   "be reported as the negative value or as 0 (documents only say 'peak value, pretrigger mean subtracted').",
        assumptions=["records have npre >= 3 and at least one post-trigger sample (the configured minimum)",
                     "projector/basis entries finite; variable-length records with projectors are documented as unimplemented and not generated"],
    ),
    "C14": dict(
        pkg=".", hdir="root", test="TestVerif_C14",
        quick=dict(shards=16, checks=8000, timeout=300),
        thorough=dict(shards=16, checks=480000, timeout=5400),
        technique="property-based testing (rapid): independent decoder written from doc/BINARY_FORMATS.md (round-trip), direct and through real PUB/SUB sockets",
        rule="rapid-generated batches of 1-5 records (channel 0..65534 incl. neighbours of the subscribed channel that share one prefix byte; "
             "0..5000 samples; signed/unsigned; pre-trigger 0..70000; arbitrary float32 bit patterns for period/volts; trigger times and "
             "frames incl. 0, negative, 2^31..2^62 +-2, MaxInt64; NaN/+-Inf/overflowing analysis values; 0..64 coefficients); all messages "
             "of a batch are built before any is decoded, then the batch is published through two real startSocket() PUB sockets and read "
             "back by an all-channel and a single-channel SUB socket; non-trivial = a record with samples and a non-default value in every "
             "header field and >= 1 coefficient; distinct = FNV-64 of the case",
        level_text="Every message produced by messageRecords/messageSummaries for the generated records is decoded field by field at the "
                   "documented offsets (36-/48-byte little-endian headers, uint16 / float64 payloads) and must reproduce the record exactly; "
                   "the same batch is received end to end over ZMQ, where the channel-prefix subscriber must get exactly its channel's messages.",
        level_note="float32 header fields are compared as bit patterns of the float32 conversion (any NaN equals NaN). End-to-end timing "
                   "problems (handshake/receive time-outs) are reported as inconclusive (exit 2), never as violations.",
        assumptions=["at most 6 messages are in flight per socket (below the PUB high-water mark of 100), so ZMQ itself never drops"],
    ),
    "C15": dict(
        rule_more='The round trip also covers packets with an earlier life (SetTimestamp, ResetTimestamp, NewData, ClearData before the final data), packets cleared before encoding (header and timestamp only), 5-140 dimensions and timestamp rates 0 and 1e-3.',
        pkg="./packets", hdir="packets", test="TestVerif_C15(RT|RAW|SLOT)?", ids=["C15", "C15RT", "C15RAW", "C15SLOT"], custom="c15_fuzz",
        quick=dict(shards=16, checks=50000, timeout=300),
        thorough=dict(shards=16, checks=150000, timeout=5400, fuzz_seconds=100),
        technique="property-based testing (rapid, structure-aware packet grammar) + encode/decode round trip + coverage-guided native go fuzzing (thorough tier)",
        rule="(i) rapid-generated byte strings = valid 16-byte header + 0-5 TLVs from a grammar (every TLV type; hostile sizes 0/too big/255; "
             "format strings incl. empty, endian-only, multi-type, unknown letters; shapes with zero/negative/huge dims; timestamp units with "
             "0/63/64/65 bits and zero numerator) + payload, with lying header/payload lengths, bad magic, truncation or trailing bytes; "
             "(slots) 1-7 constructed packets written into slots of 8..8192 bytes (padding to the slot boundary, none when a packet ends exactly on one - "
             "a third of the packets are sized to do so) and read back with ReadPacketPlusPad; "
             "(ii) rapid-generated packets built with NewPacket/SetTimestamp/NewData (int16/32/64, 1-4 positive dims, frames 1..beyond the "
             "maximum packet length) encoded and decoded; (iii, thorough) native fuzzing of the same decode oracle from empty, valid and hostile "
             "corpora. non-trivial = decode succeeded with >= 2 TLVs and a non-empty typed payload / round trip with >= 2 frames; "
             "distinct = FNV-64 of the generated case",
        level_text="ReadPacket and every accessor (Frames, ChannelInfo, Length, Timestamp, IsExternalTrigger, SequenceNumber, String, "
                   "ReadValue at -1/0/last/last+1, MakePretendPacket) are exercised on each generated byte string; any panic, over-read "
                   "beyond the declared length or inconsistent size is a violation. decode(encode(p)) must reproduce version, source id, "
                   "sequence number, offset, shape, all samples and the timestamp counter.",
        level_note="Byte strings are bounded by the maximum datagram size (8192+64). Native fuzzing cannot be seeded deterministically; its "
                   "saved crashers are the reproducible unit and are replayed through the same oracle.",
        assumptions=["little-endian host (the decoder reinterprets the payload in place)"],
    ),
    "C05": dict(
        rule_more='(E) also prepares ROACH and Abaco sources, and a quarter of its STARTs carry a TES map (accepted, or refused with a map error).',
        pkg=".", hdir="root", test="TestVerif_C05E?", ids=["C05", "C05E"],
        quick=dict(shards=16, checks=1, per_test={"TestVerif_C05": 12000, "TestVerif_C05E": 1500}, timeout=400),
        thorough=dict(shards=16, checks=1, per_test={"TestVerif_C05": 240000, "TestVerif_C05E": 30000}, timeout=5400),
        technique="stateful property-based testing (rapid) with independent file decoders (written from doc/LJH.md, the LJH3 layout and OFF 0.3.0) as round-trip oracle",
        rule="(E) the headers a START request produces: a real AnySource with generated sample rate (12 values, most with a period that is not a whole "
             "number of ns), geometry, channel numbers/names, sub-frame parameters, decimation and projectors (or, in half of the cases, the real Triangle / SimPulse / Lancero source configured and prepared as Start does; for Lancero the sub-frame parameters are taken from doc/LJH.md: divisions = rows, offset = row) gets WriteControl START (any type "
             "subset), 1-4 records per channel, STOP; every file is decoded and compared with the source's true parameters. "
             "(main) rapid-generated channel/geometry parameters (indices and geometry 0..65535, names without whitespace, 8 time bases, sub-frame "
             "divisions/offsets, 1-6 bases with arbitrary finite float64 projector/basis entries incl. +-MaxFloat64 and denormals), every "
             "non-empty subset of {LJH2.2, LJH3, OFF}, and a history of 1-12 publish(1-3 records)/flush/pause/unpause operations followed "
             "by stop; record frames and times incl. 0, negative, +-2^62 and MaxInt64, variable lengths for LJH3-only; files are decoded "
             "after every flush and after stop; non-trivial = >= 2 accepted records and a flush or pause between writes; distinct = FNV-64 of the case",
        level_text="The DataPublisher is driven through its real Set*/PublishData/SetPause/Flush/Remove* calls; after every flush and after "
                   "stop each file is parsed by an independent decoder and must state the generated parameters (record/pre-trigger length, "
                   "time base to 7 digits, channel name/number/index, rows/cols/row/col, sub-frame parameters, bit-exact matrices) and "
                   "contain exactly the records published while unpaused, in order, with exact samples/coefficients/frames/timestamps, "
                   "and have length header + sum of record sizes.",
        level_note="The LJH header key 'Digitized Word Size In Bytes' (doc: '...in Bytes') is not judged; word size is the documented "
                   "constant 2. LJH3 Row/Column cannot be passed through SetLJH3 and are checked at the WriteControl level (C19). "
                   "The stale pre-0.3.0 record comment at the top of off/off.go is a documentation remark only.",
        assumptions=["records handed to a publisher with LJH2.2/OFF enabled have the configured length (other lengths are rejected by the writers)",
                     "sub-frame product frame*divisions+offset stays inside int64"],
    ),
    "C07": dict(
        rule_more="(A) also with a periodic flush interval of 0.1-2 ms, so that periodic flushes fall between and into the operations; (B) a few cases per shard write LJH3 records as long as the writer's own buffer (32768/40000 samples) mixed with short ones. (B) OFF records of 1000-2000 samples (large header matrices) in one case of twenty. (A) with the disk alive, a full queue must empty by itself: after depth+2 writes one more 64-byte write must be accepted within 5 s without any flush.",
        pkg=".", hdir="root", test="TestVerif_C07[ABC]", ids=["C07A", "C07B", "C07C"],
        quick=dict(shards=16, checks=3000, timeout=600),
        thorough=dict(shards=16, checks=75000, timeout=5400),
        technique="property-based testing (rapid) with a harness-owned disk: gate writer under asyncbufio, FIFO under the real LJH/OFF writers; byte-exact stream oracle",
        rule="(C) DataPublisher histories of publish / Flush / PAUSE / UNPAUSE over the real writers on regular files, every Flush followed by an "
             "independent decode that must find every record accepted so far (the C05 generator). "
             "(A) rapid-generated interleavings (1-60 ops) of Write(0..9000 bytes)/Flush/Close/gate-open/gate-close on asyncbufio.Writer with "
             "queue depth 1..16 over a gate writer; (B) real ljh.Writer / ljh.Writer3 / off.Writer with FileName = FIFO (pipe size 4-64 KiB, "
             "record lengths 1..257 samples, 1-5 bases): records while the far end reads, then the far end stops reading until WriteRecord "
             "is rejected (queue full), 0-9 further attempts, then the far end resumes and 1-6 more records, optional Flush, Close. "
             "non-trivial = the queue-full path was reached (>= 1 rejected write) AND >= 1 write was accepted afterwards; distinct = FNV-64 of the case",
        level_text="The bytes that reached the far side after Flush/Close returned must equal, byte for byte, the header followed by the "
                   "concatenation in order of exactly those writes/records whose call returned nil; a rejected record must contribute zero "
                   "bytes. Where the queue fills relative to a record depends on the writer goroutine, which changes which case exposes a torn "
                   "record, never the verdict.",
        level_note="Pacing sleeps (<= 0.4 s total per case) are only used to wait for queue room after the disk resumes; a far end that never "
                   "reaches EOF within 20 s or a rejection while the disk is alive is reported as inconclusive, not as a violation.",
        assumptions=["Flush/Close are only required to return while the disk is alive (they block by design otherwise)"],
    ),
    "C01": dict(
        pkg=".", hdir="root", test="TestVerif_C01", wal=True,
        quick=dict(shards=16, checks=15000, timeout=600),
        thorough=dict(shards=16, checks=240000, timeout=5400),
        technique="property-based testing (rapid): validity predicate over every emitted record against a harness-kept ground-truth stream",
        rule="rapid-generated 1-4 channel streams (any baseline incl. 0/32767/32768/65535, noise, fully random, 0-8 pulses of 5 shapes and "
             "either polarity placed preferentially within +-nsamp of block boundaries; signed/unsigned), record lengths 4..64 with "
             "pre-trigger 3..nsamp-1, block partitions (all 1-sample, 1..npre, 1..3*nsamp, one block, record-sized, mixed tiny/large), first "
             "frame 0..2^40 incl. 2^31/2^32 +-600, exact or jittered block stamps, and a configuration history: settings restored from a "
             "saved config file or ConfigureTriggers (edge/level/auto mixes, edge-multi in 3 modes), then 0-4 of {retrigger, "
             "ConfigurePulseLengths, group connect/disconnect, stop coupling} between blocks; fed through the real AnySource."
             "ProcessSegments. non-trivial = >= 1 record whose excerpt starts before the block being processed or that is emitted after a "
             "trim; distinct = FNV-64 of the case",
        level_text="For every record that reaches the publish channel (primary or secondary, any trigger type) the harness checks declared "
                   "lengths against the configuration in force, bit-identity of the samples with the delivered stream around the stated "
                   "trigger frame, the trigger time the block stamps assign to that frame, and the channel labels; any panic in block "
                   "processing is a violation (write-ahead log = replay).",
        level_note="Frame numbering of delivered blocks is contiguous (gaps are C04's business). With jittered stamps the time extrapolated "
                   "from the block being processed or from the block containing the sample is accepted.",
        assumptions=["record lengths and edge-multi settings respect the documented validity rules", "decimation is never enabled in production code and is excluded"],
    ),
    "C02": dict(
        rule_more='Also: sample rates whose period is no whole number of nanoseconds (the auto delay counts samples of the true rate); one channel may group-trigger a judged channel (its secondary records are not triggers of its own and must not change which of its own pulses are found). A third of the cases send their trigger and record-length requests through the methods of a real SourceControl (stand-in core loop), as a client\'s requests arrive.',
        pkg=".", hdir="root", test="TestVerif_C02", wal=True,
        quick=dict(shards=16, checks=12000, timeout=600),
        thorough=dict(shards=16, checks=240000, timeout=5400),
        technique="property-based testing (rapid): independent criterion scan of the ground-truth stream (soundness + completeness + overlap + auto-gap), per configuration epoch",
        rule="rapid-generated 1-2 channel streams with pulses placed preferentially within +-nsamp of block boundaries, block partitions as "
             "in C01, edge (rising/falling/both) / level (either sense) / auto (delay, veto) mixes, and control histories: fresh start with "
             "settings restored from a saved configuration file and nothing else, ConfigureTriggers, ConfigurePulseLengths with the same or "
             "changed lengths, in any order between blocks. non-trivial = >= 1 criterion-satisfying sample within nsamp of a block boundary "
             "inside the decidable range of an epoch; distinct = FNV-64 of the case",
        level_text="Every primary trigger must sit on a sample satisfying an enabled criterion; every sample of the decidable range that "
                   "satisfies the edge criterion must be a trigger or lie in the one-record dead time after an emitted trigger; every "
                   "level crossing must be a trigger or lie within one record of one; edge-only epochs never overlap; auto without veto "
                   "leaves no gap beyond max(delay, record)+record, including before the first trigger of an epoch.",
        level_note="Decidable range of an epoch starting at delivered index E: E+npre <= i and i+(nsamp-npre) <= last index delivered in the "
                   "epoch (conservative at epoch start, so the oracle never depends on how much history is retained). Dead time counts "
                   "triggers of earlier epochs with the current record length; after ConfigureTriggers frame 0 acts as a virtual trigger "
                   "(the code 'forgets' the last trigger by setting it to frame 0).",
        assumptions=["no group triggers and no edge-multi in this check (C08/C09)", "contiguous frame numbering"],
    ),
    "C08": dict(
        rule_more='A third of the cases compute the status reports (trigger state, group-trigger state, writing state) between blocks of the partitioned run, as every client request does.',
        pkg=".", hdir="root", test="TestVerif_C08", wal=True,
        quick=dict(shards=16, checks=15000, timeout=600),
        thorough=dict(shards=16, checks=300000, timeout=5400),
        technique="property-based testing (rapid): metamorphic/differential relation one-block vs partitioned run + validity predicates",
        rule="rapid-generated one-channel streams with edges placed at indexes npre-2..npre+2 (first searchable sample), at block boundaries "
             "-+(nsamp-npre), in pairs closer together than a record, and boundary-biased pulses; all three edge-multi record modes, "
             "thresholds of either sign (1..20000), monotonicity counts 0..nsamp-npre, zero-threshold refinement on/off, record lengths "
             "satisfying the validity rule; run A = whole stream as one block, run B = a generated partition (as in C01). non-trivial = "
             ">= 2 records AND (an edge within nsamp of a block boundary of run B OR an edge at index <= npre+1); distinct = FNV-64 of the case",
        level_text="The record lists (frame, pre-trigger length, length, samples) of the one-block and the partitioned run of the same stream "
                   "through the real append/trigger/trim cycle must be identical; in each run trigger frames strictly increase, fixed-length "
                   "modes give (npre, nsamp), variable-length records neither overlap nor extend past the next edge, every record is an "
                   "exact excerpt; any panic is a violation.",
        level_note="Not claimed (no listed property demands edge-multi completeness): with a first frame in [2^31, 2^32) a (re)configured "
                   "edge-multi channel never triggers; both runs agree (empty), which is observed, not judged.",
        assumptions=["edge-multi settings respect the validity rule (zero-threshold needs npre >= 4 and nsamp-npre >= 4; nmonotone <= nsamp-npre)"],
    ),
    "C09": dict(
        rule_more='A quarter of the pipeline cases contain blocks without samples; (R) histories may end with a restart, after which what clients were last told about the connections must be what the new run uses.',
        pkg=".", hdir="root", test="TestVerif_C09R?", ids=["C09", "C09R"], wal=True,
        quick=dict(shards=16, checks=1, per_test={"TestVerif_C09": 12000, "TestVerif_C09R": 60}, timeout=600),
        thorough=dict(shards=16, checks=1, per_test={"TestVerif_C09": 180000, "TestVerif_C09R": 2500}, timeout=5400),
        technique="stateful property-based testing (rapid) against a set-of-pairs reference model + per-cycle multiset oracle for secondaries",
        rule="(R) the report at its observation point: histories of 2-12 add/delete/stop-coupling/error-feedback-coupling requests (indices incl. "
             "out-of-range, mixed valid/invalid lists) sent through the real RPC layer (SourceControl) to a running scripted, Lancero (in-memory card) or "
             "triangle source; after each request the last GROUPTRIGGER state sent to clients is compared with the connections in use. "
             "(main) rapid-generated histories on a 2/4/6-channel LanceroSource value: 1-10 edits (add/delete with 1-4 receivers incl. out-of-range, "
             "negative, repeated and self indices; StopTriggerCoupling; SetCoupling none/FB->err/err->FB) interleaved with data blocks "
             "(partitions as in C01) carrying boundary-biased pulses; channels with triggers off, edge, level or auto, configured by "
             "ConfigureTriggers, restored from a saved configuration, or only partly configured. non-trivial = >= 1 cycle delivering a "
             "secondary after a delete / stop-coupling / repeated add; distinct = FNV-64 of the case",
        level_text="After every edit the connection state reported to clients must equal, as a set, the set-theoretic result (adds/deletes "
                   "idempotent, self-connections ignored, out-of-range indices never taking effect). After every processing cycle the "
                   "multiset of record frames on each channel must equal its own primaries plus the primaries of its connected sources, "
                   "every record being the receiver's own exact excerpt; a channel without incoming connection emits only its primaries.",
        level_note="Primaries are read at the processor/broker interface and cross-checked against the records published on the channel.",
        assumptions=["no ConfigurePulseLengths or edge-multi inside these histories (covered by C01/C08)"],
    ),
    "C06": dict(
        rule_more='An earlier run directory of the day may be deleted by hand between sessions (directory numbers with a hole): the next START must still write into a directory that did not exist.',
        pkg=".", hdir="root", test="TestVerif_C06", wal=True,
        quick=dict(shards=16, checks=3000, timeout=600),
        thorough=dict(shards=16, checks=36000, timeout=5400),
        technique="stateful property-based testing (rapid): consistency oracle between the reported writing state and decoded files/open descriptors",
        rule="rapid-generated histories (2-16 steps) on a real 2-4 channel AnySource with auto triggers (some channels with projectors): "
             "WriteControl START x every subset of {LJH2.2, LJH3, OFF} incl. empty, default / explicit / unusable path, any letter case; "
             "STOP; PAUSE; UNPAUSE; 'UNPAUSE label'; malformed requests (UNPAUSEx, 'UNPAUSE ', RESUME, ''); projector load/unload while "
             "idle; publish = one data block through ProcessSegments. non-trivial = >= 2 successful STARTs with different reported type sets, "
             "a PAUSE before the last of them, and records published while the state said active and unpaused; distinct = FNV-64 of the case",
        level_text="After every request the reported state (ComputeWritingState) is recorded; records of each block are expected in the "
                   "files of exactly the types that state named, for every eligible channel (OFF: channels with projectors at START), iff "
                   "it said active and not paused. Files are decoded with the independent decoders at every STOP and at the end and must "
                   "hold exactly the expected records; a request that returned an error must leave the reported state unchanged; every "
                   "successful START must report a directory that did not exist before; after STOP no descriptor points into the run "
                   "directory; no data file may appear outside the directories of successful STARTs.",
        level_note="The oracle is a consistency check, not a re-implementation of the acceptance rules: which requests are accepted is the "
                   "code's decision; only 'reported = behaviour' and 'rejected = unchanged' are judged.",
        assumptions=["projectors are only changed while writing is inactive", "unusable path = parent is a regular file (the sandbox runs as root, permission bits cannot make a path unusable)"],
    ),
    "C20": dict(
        rule_more="Also: raw-data archive requests (1-1000 samples) being filled while blocks arrive, external-trigger counts given relative to the block's first frame (-30..+15 frames, i.e. also before it), and START requests rejected at the experiment-state file (over-long base path). A quarter of the cases start from a saved configuration that says the last run was still writing (active, with that session's file names): the run starts idle and leaves those files alone.",
        pkg=".", hdir="root", test="TestVerif_C20", wal=True,
        quick=dict(shards=16, checks=2500, timeout=600),
        thorough=dict(shards=16, checks=75000, timeout=5400),
        technique="stateful property-based testing (rapid): independent decoders of the three side files compared with the harness' event log per START..STOP cycle",
        rule="rapid-generated histories (2-40 ops) on a real 1-3 channel AnySource: data blocks carrying 0..700 external-trigger counts (any int64 "
             "incl. values containing newline bytes, more than one bufio buffer) and dropped-frame counts (with or without a frame-number jump), "
             "interleaved with WriteControl START (LJH2.2/LJH3/none) / STOP / PAUSE / UNPAUSE / 'UNPAUSE label' / malformed requests and "
             "state-label requests (labels with commas, spaces, '#', keywords); a skeleton of 2-3 full cycles with noise is used in 60% of cases. "
             "non-trivial = >= 2 completed START..STOP cycles each holding >= 1 external trigger and >= 1 accepted label; distinct = FNV-64 of the case",
        level_text="For every START..STOP cycle the external-trigger file must decode (one header line, little-endian int64s) to exactly the "
                   "concatenation, in order, of the lists of all blocks processed while the reported state was active; the data-drop file to one "
                   "'first-frame count' line per block that reported drops in that window; the experiment-state file to header, START, one line per "
                   "accepted label request (incl. 'UNPAUSE label'), STOP, with non-decreasing time stamps inside the cycle's wall-clock window; "
                   "a label accepted while idle, an open descriptor in the run directory after STOP, or any carried-over content is a violation.",
        level_note="'Writing active' is the reported Active flag (a paused run is still active: its side files keep logging, as the code does). "
                   "Files are created lazily, so a missing external-trigger/data-drop file is accepted when the cycle had no such event.",
        assumptions=["labels are non-empty and contain no newline (the RPC layer rejects empty labels)"],
    ),
    "C03": dict(
        rule_more='Ring mode also uses rings only a few slots larger than the largest batch (reads wrap around the end) and rings that are no whole number of slots. Packet sequence numbers may start just below 2^32 and wrap during the run; a third of the ring-mode cases run the sampling phase through AbacoRing.samplePackets itself (it ends on its time limit).',
        pkg=".", hdir="root", test="TestVerif_C03", wal=True,
        quick=dict(shards=16, checks=1500, timeout=900),
        thorough=dict(shards=16, checks=32000, timeout=5400),
        technique="property-based testing (rapid) with a scripted packet producer as the clock; reference demultiplexer as oracle",
        rule="(in a quarter of the cases the producers are real AbacoRings reading real shared-memory ring buffers that the harness fills slot by slot, as the DMA does) "
             "rapid-generated group layouts (1-4 groups arriving in arbitrary order over 1-4 producers, 1-8 channels each, 1-D or 2-D shape, "
             "int16 or int32 payload, per-group sequence base up to 2^31, 1-16 frames per packet), a sampling phase of 2-6 packets per group "
             "(later ones possibly lost), and a tick script of 1-12 read ticks: per tick and group 0-8 further packet positions arrive "
             "(empty ticks, one group lagging the others), with none / one / a run of / scattered lost positions per group; packets pass "
             "through Bytes()/ReadPacket; a final tick lets every group catch up. Real Sample() -> readerMainLoop() (1 ms period) -> "
             "distributeData(). non-trivial = >= 1 lost packet AND >= 1 tick that leaves packets of some group queued; distinct = FNV-64 of the case",
        level_text="The concatenated per-channel output must equal, sample for sample, the reference demultiplexing: starting at the first "
                   "sequence number after start-up common to all groups, every arrived packet contributes its frames for that channel "
                   "(int32: upper 16 bits), every lost packet exactly frames-per-packet filler samples (content free); so the per-channel count "
                   "equals the frames spanned, all groups stay aligned, every block has equal length on all channels, block frame numbers are "
                   "contiguous, and the dropped-frame total over all blocks equals the filler frames inserted; a panic in the reader loop is a violation.",
        level_note="Frames per packet are equal across groups (sequence-number alignment presupposes it) and the first sampled packet of every group "
                   "arrives (the code documents that it synchronises groups on it). For int32 payloads value/65536 (rounding towards zero) is "
                   "accepted as well as the arithmetic upper half. Filler frames trimmed before the common start may or may not be counted as dropped. "
                   "Phase unwrapping is off here (C12 covers it).",
        assumptions=["packets of one group arrive in sequence order", "equal frames per packet in all groups", "sequence numbers do not wrap around 2^32 within a case"],
    ),
    "C04": dict(
        rule_more='The active card has number 0-3, with or without an idle card 0 installed. One ReleaseBytes call of the run may release and then report a driver error.',
        pkg=".", hdir="root", test="TestVerif_C04", wal=True,
        also=[dict(alias="lancero", pkg="./lancero", hdir="lancero", test="TestVerif_C04A", ids=["C04A"])],
        quick=dict(shards=48, checks=1, per_test={"TestVerif_C04": 40, "TestVerif_C04A": 1500}, timeout=900),
        thorough=dict(shards=64, checks=1, per_test={"TestVerif_C04": 1200, "TestVerif_C04A": 60000}, timeout=5400),
        technique="property-based testing (rapid) with a scripted in-memory card (lancero.Lanceroer) as the clock; reference demultiplexer/mixer/external-trigger scanner as oracle",
        rule="(A, package lancero) the real Lancero object and DMA ring adapter on temporary register files, the harness as the FPGA: 4-40 "
             "operations (FPGA writes of 1-100 words, up to the ring's end exactly, or as far as allowed; AvailableBuffer; release of 0-100 % "
             "of the last read; adapter restart) on rings of 64-4096 bytes - every read must return exactly the unreleased part of the "
             "stream; non-trivial = a read that crosses or ends at the ring's end. "
             "(main) rapid-generated geometries (1-8 columns x 2-16 rows, NSAMP 1-16), arbitrary frame contents obeying the frame-bit convention (incl. "
             "full-scale errors and feedback), a stream starting mid-frame, chunk schedules of 3-15 driver reads (frame-aligned, tiny, around the "
             "3-frame minimum, arbitrary byte counts), 0-4 external-trigger pulses of 1 row-time to 3 frames, and either 1-3 mix requests "
             "(fractions 0, +-small, +-huge; served while the card is held empty so the block boundary is known) or one gap of lost words "
             "(sub-frame, multi-frame+fraction, whole frames, arbitrary). Real Configure/Sample/PrepareChannels/PrepareRun/StartRun/getNextBlock "
             "with the real 50 ms reader tick. non-trivial = chunking not frame aligned AND (multi-column external trigger OR mix change OR detected gap); "
             "distinct = FNV-64 of the case",
        level_text="Without loss: every emitted frame j must be input frame j+1 (the start-up discards up to the first frame boundary): error "
                   "channels 2(c*rows+r) bit-exact, feedback channels 2(c*rows+r)+1 = previous frame's feedback with the two flag bits cleared plus "
                   "mix x signed error of the same index (|diff| <= 0.5, saturating at 0/65535); all channels equal length per block, contiguous "
                   "frame numbers, no drop reported, at most 2 whole frames left unread at the end, release accounting never exceeds what was "
                   "delivered; external-trigger counts = exactly one frame*rows+row per rising edge of the per-row flag. With a gap: blocks "
                   "before the loss exact, the block reporting the drop and all later ones are consecutive whole frames sent after the loss, "
                   "a re-aligned stream without a reported drop is a violation, frame numbers never go backwards.",
        level_note="One card (the reader panics by design on several). A gap of whole frames is undetectable by design and only checked for "
                   "the frames before it. The first sample of every feedback channel (and the first after a re-alignment) is unconstrained. "
                   "Dropped-frame counts are the code's time-based estimate and only required to be positive.",
        assumptions=["4-byte word granularity of the stream and of gaps (DMA words)", "card device number 0", "the first 60 reads deliver at least 4 frames (StartRun gives up after 100 empty reads)"],
    ),
    "C19": dict(
        rule_more='(R) also reads the stored channel-group report ($HOME/.dastard/channels.json) after every Start: valid JSON, equal to the groups of the STATUS message. (R) every second round sends a ConfigureLanceroSource request while the Start is sampling the card (refused). (T) the simulated sources behind the real SourceControl: 1-4 Configure requests, accepted and refused (too slow a buffer, no channels), then Start: the identity tables of the run must have one entry per running channel, distinct, with row/column codes of a geometry that holds them, and STATUS must report that many channels; then WriteControl START/STOP.',
        pkg=".", hdir="root", test="TestVerif_C19[RT]?", ids=["C19", "C19R", "C19T"], wal=True,
        quick=dict(shards=16, checks=1, per_test={"TestVerif_C19": 6000, "TestVerif_C19R": 25, "TestVerif_C19T": 60}, timeout=900),
        thorough=dict(shards=16, checks=1, per_test={"TestVerif_C19": 90000, "TestVerif_C19R": 800, "TestVerif_C19T": 2500}, timeout=5400),
        technique="property-based testing (rapid): validity predicates over the identity tables of every accepted configuration + decoded file headers of a real START/STOP cycle",
        rule="(R) what clients are told: the real SourceControl configures and starts its Lancero source (one in-memory card, 1-2 columns x 2-4 rows) "
             "2-4 times in a row with generated first-row numbers and column separations, often with an unchanged number of channels; after every "
             "Start the channel groups of the STATUS message are compared with the channel numbers in use. "
             "(main) rapid-generated Lancero configurations (1-3 cards with distinct device numbers 0-5 in any order, 1-8 columns, 1-40 rows (mostly equal "
             "across cards), first row -2..1000, card and column separations 0, negative, exactly sufficient, one too small, larger; optionally the "
             "same source object prepared a second time with another geometry), Abaco group layouts (1-5 groups of 1-12 channels: adjacent, gapped, "
             "overlapping by one or more channels, duplicated, arriving in any order; real Sample() with a scripted packet producer) and ROACH channel "
             "counts; a third of the accepted configurations with <= 48 streams also run START (LJH2.2+LJH3+OFF) / one block / STOP. "
             "non-trivial = Lancero with >= 2 columns and a non-zero separation, or >= 2 Abaco groups; distinct = FNV-64 of the case",
        level_text="Accepted configurations must give pairwise distinct names, err<N>/chan<N> naming, one shared number per error/feedback pair, "
                   "distinct numbers for different (card, column, row), reported groups that are disjoint and cover exactly the numbers in use, "
                   "row/column codes decoding to the true (row, column, rows, columns), ChannelNames() equal to the tables; Abaco layouts in which two "
                   "groups share a channel number must be rejected and layouts without overlap accepted; sequential numbering (separations 0) must be "
                   "accepted. In the START cycle no two streams share a file, every file holds its own stream's data, and the LJH2.2 / LJH3 / OFF "
                   "headers carry the name, number, index and row/column identity of the tables.",
        level_note="Which separations are rejected is otherwise the code's decision (only 'accepted => collision-free' is judged). "
                   "Sub-frame offsets/divisions are timing metadata, not identity, and are not judged here.",
        assumptions=["Lancero cards have distinct device numbers (Configure rejects repeats)"],
    ),
    "C16": dict(
        rule_more="After every injected crash the real setupViper() of cmd/dastard runs on the directory (a child process of that package's own test binary) before the configuration is read; (RPC) sessions may contain a request for all status sent while the updater has a backlog of 40-70 bulky stateless messages: every topic published so far must be sent again. Values include messages of tens of kilobytes (thousands of channels).",
        pkg=".", hdir="root", test="TestVerif_C16(Crash|RPC)?", ids=["C16", "C16CRASH", "C16RPC"], wal=True,
        aux_bins=[dict(alias="cmddastard", pkg="./cmd/dastard", hdir="cmddastard", env="VERIF_C16_MAINBIN")],
        env={"VERIF_NO_GLOBAL_CHANNELS": "1"},
        quick=dict(shards=32, checks=1, per_test={"TestVerif_C16": 20, "TestVerif_C16Crash": 1, "TestVerif_C16RPC": 6}, timeout=900),
        thorough=dict(shards=48, checks=2, per_test={"TestVerif_C16": 600, "TestVerif_C16Crash": 24, "TestVerif_C16RPC": 150}, timeout=5400),
        technique="stateful property-based testing (rapid) of the real status publisher against a last-message-per-topic model; round trip through the real save and the start-up read path; "
                  "fault enumeration: kill -9 on entry to every file-system call of a save (strace syscall injection) followed by the start-up read path",
        rule="(a,b) rapid-generated histories of 1-30 status updates over 3, 8 or all 21 topics (real tags, incl. no-save and no-publish ones; 3 value "
             "variants per topic, so repeats and unchanged values are frequent; values of the persisted structures generated per field incl. "
             "hostile strings such as 'true', '~', 'a: b', paths with spaces/unicode/quotes) with interleaved SENDALLs, published through the real "
             "RunClientUpdater and read by a SUB socket (NEWDASTARD probes as markers); a third of the cases wait for the updater's own delayed "
             "save and run the start-up read path (the viper calls of cmd/dastard's setupViper + the UnmarshalKey sequence of RunRPCServer/PrepareRun). "
             "(c) rapid-generated pairs (old, new) of values of 1-8 persistent topics; a child process saves 'old', a traced dry run of saving 'new' "
             "enumerates every file-system call touching the config directory, then one child per call is killed on entry to it. "
             "non-trivial = (a) >= 3 topics, a changed value and >= 2 SENDALLs / (c) >= 4 kill points; distinct = FNV-64 of the case",
        level_text="After every SENDALL the subscriber must receive exactly one message per topic published so far in the run, equal to that topic's "
                   "latest JSON, and nothing else. After the updater's save, a fresh start-up must read back the latest simpulse/triangle/lancero/"
                   "abaco/roach configurations, record lengths, trigger settings and base path. After a kill on entry to any file-system call of a "
                   "save, the configuration file must exist, be non-empty and parse, and the start-up read path must yield the complete old or the "
                   "complete new values.",
        level_note="NEWDASTARD and the internal no-publish tags are documented as carrying no state and are not expected in a replay. Edge-multi "
                   "settings are documented as not restored and are generated as off. If strace cannot inject (no ptrace), the crash part is "
                   "reported as inconclusive. A kill whose call ordinal does not come up in that run is counted as 'kill-missed', not judged.",
        assumptions=["values are JSON-serialisable (they arrive by JSON-RPC)", "kill = SIGKILL of the process; no power loss (page cache survives)"],
    ),
    "C11": dict(
        rule_more="A refused trigger or record-length request must leave every channel's configured settings and lengths as they were (read by a closure in the core loop); histories with two edge-multi channels of different tolerance and with projectors on one of two channels; Configure requests for the running source; (W) a source that ends by itself followed by silence across the server's heartbeat period.",
        pkg=".", hdir="root", test="TestVerif_C11[SW]?", ids=["C11", "C11S", "C11W"], wal=True,
        quick=dict(shards=32, checks=1, per_test={"TestVerif_C11": 200, "TestVerif_C11S": 5, "TestVerif_C11W": 40}, timeout=900),
        thorough=dict(shards=32, checks=1, per_test={"TestVerif_C11": 4500, "TestVerif_C11S": 150, "TestVerif_C11W": 1500}, timeout=5400),
        technique="stateful property-based testing (rapid) of the real SourceControl + Start/CoreLoop: watchdog with goroutine-dump quiescence test, progress counter, enter/exit monitor around block processing and request application",
        rule="(W) raw JSON-RPC sessions of 2-9 requests written to a TCP connection of the real RunRPCServer: valid requests, requests that can be "
             "read but not served (unknown method/service, parameters of the wrong type or shape), text that is not JSON, requests cut into two TCP "
             "writes or sent without waiting for the previous answer: every request with a well-formed envelope is answered in order with its id (or, "
             "after something malformed, the connection is closed), never silence; a new connection is served afterwards; non-trivial = a request "
             "follows a malformed one. "
             "(S) requests of a second client connection while a Start is still sampling its device (real SourceControl + ROACH source over "
             "loopback, device silent for 0-700 ms): each is answered, and after a successful Start valid requests and Stop are served. "
             "(main) rapid-generated request histories (requests before start, 2-14 while running, 1-4 after the source stopped or ended itself, optionally a "
             "restart and more) from one client against a real SourceControl: ConfigureTriggers (indices in/out of range/negative/empty, all trigger kinds "
             "incl. edge-multi), ConfigurePulseLengths (valid, non-positive, too small), ConfigureProjectorsBasis (valid, wrong shape, mismatched, "
             "truncated/short/empty/huge-header/garbage blobs, bad base64, bad channel), WriteControl (START x type subsets, STOP, PAUSE, UNPAUSE[ label], "
             "malformed, unusable path), SetExperimentStateLabel(WaitForError), WriteComment/ReadComment, CoupleErrToFB/FBToErr, Add/DeleteGroupTriggerCoupling "
             "(incl. nil map, self, out of range), StopTriggerCoupling, StoreRawDataBlock (N > 0, 0, < 0, huge), ConfigureMixFraction, MapServer.Load "
             "(matching / wrong pixel count / missing file) and Unload, SendAllStatus; I/O faults: run directory removed, comment.txt pre-created as a "
             "directory; sources: a scripted source on the real AnySource (blocks every 4 ms; ends itself with an error block or a closed channel), "
             "Triangle, SimPulse (monitored or started through SourceControl.Start) and ErroringSource; block processing artificially takes 0/0.2/1.5 ms. "
             "non-trivial = >= 1 invalid-argument request AND a request after self-termination or with an I/O fault; distinct = FNV-64 of the case",
        level_text="Every request must return (a call still sitting in the same channel operation of runLaterIfActive after 10 s and again 1.5 s later is a "
                   "violation, a merely slow one is inconclusive); queued requests must return an error when no source is running (also after the source "
                   "ended itself), requests with invalid arguments or a failed I/O step must return an error, plain valid ones must succeed; a panic "
                   "anywhere kills the shard and is reported from the write-ahead log; after every request a further data block must be processed within "
                   "8 s and the source must still run; the monitor must never see a request method and block processing active at the same time.",
        level_note="Requests are issued in-process on SourceControl's exported RPC methods, one at a time, exactly as the JSON-RPC server does for one "
                   "connection after decoding; the (W) harness sends raw JSON text over TCP to the real RunRPCServer. The fire-and-forget state-label mode is excluded as the "
                   "property says. A connection of a channel to itself and deletions of non-existent connections are documented no-ops and not judged.",
        assumptions=["one client: requests do not overlap each other", "no Stop while a Start call is executing"],
    ),
    "C10": dict(
        rule_more='The scripted Lancero card refuses double starts/stops like the driver and may report an error when the collector is stopped at the end of the first run (the same card must start again); writing may be PAUSEd when the run ends; after a run that ended by itself and before any Stop call writing must already be stopped. The scripted Lancero card may take 40 ms to stop its adapter: when Stop returns the card must be switched off.',
        pkg=".", hdir="root", test="TestVerif_C10", wal=True,
        quick=dict(shards=32, checks=25, timeout=900),
        thorough=dict(shards=48, checks=1500, timeout=5400),
        technique="stateful property-based testing (rapid) over one source object driven through the real Start/CoreLoop/Stop: watchdog with goroutine-dump quiescence test, goroutine census, open-descriptor scan",
        rule="rapid-generated life-cycle histories (1-3 rounds on the same object) for a scripted source on the real AnySource (ends itself with an error "
             "block or a closed channel on command; Sample or StartRun can be made to fail once), TriangleSource, SimPulseSource, ErroringSource, "
             "AbacoSource with an endless scripted packet producer, AbacoSource with a real UDP receiver on a loopback port that first receives "
             "nothing (failed start) and then real packets, and RoachSource with one device on a loopback port (silent at the first start, then "
             "sending). Operations: Start, second Start while active, 1-4 concurrent Stops with generated "
             "staggering (0-3 ms), Stop issued after / at once / 0.1-2 ms after the source was told to end itself, a second Stop round on the stopped "
             "source, queued requests, START/STOP writing, raw-data archive requests of 50 / 500 / 10^6 samples (the last never completes), a write START that fails in its last step, channel-count "
             "changes between runs, for the UDP sources datagrams that are not data packets (empty, 3 bytes, text, impossible header length, only the 16 fixed header bytes) or "
             "that are well-formed packets of a channel group unknown to the source, sent to the receiving port of a running source, and unwrap "
             "options that cannot work (no reset interval, no rescaling: refused by Configure or failing the Start cleanly); every history ends with one more Configure+Start+Stop. non-trivial = >= 2 successful Starts on the object AND a "
             "concurrent-Stop round or a Stop racing self-termination; distinct = FNV-64 of the case",
        level_text="Start must succeed exactly when the source is inactive (and no failure was injected), leave it Active and deliver a block within "
                   "8 s; a failed Start must leave it Inactive; every Start/Stop call must return (blocked at the same frame after 10 s and again 1.5 s "
                   "later = violation, merely slow = inconclusive); once all Stop calls of a round have returned: state Inactive, no goroutine of the run "
                   "left after 3 s of grace (census of goroutines executing dastard code against the pre-start census), writing reported stopped, no "
                   "descriptor open under the output directory; the next Start on the same object, also after a failed one, must succeed.",
        level_note="No Stop is issued while a Start call is executing (documented deliberate panic, unreachable through the RPC layer). Schedules are "
                   "perturbed by generated staggering, not enumerated: interleavings of Stop vs. self-termination are sampled, not exhausted.",
        assumptions=["Abaco clients call Configure before each Start (a finished run drops its packet producers, as in production)"],
    ),
    "C17": dict(
        rule_more='Request workloads also contain the state-label request in its default fire-and-forget mode (only where it must succeed: running source, writing active) immediately followed by ReadComment.',
        pkg=".", hdir="root", test="TestVerif_C17", wal=True, race=True, no_data_panic_undecided=True,
        env={"GORACE": "log_path={work}/race halt_on_error=0 exitcode=0 history_size=3", "VERIF_RACE_LOG": "{work}/race"},
        quick=dict(shards=32, checks=12, timeout=1200),
        thorough=dict(shards=48, checks=500, timeout=5400),
        technique="race-detector monitored property-based testing: rapid-generated pipeline workloads run in a -race build; every detector report is a failure (signature = pair of innermost dastard frames)",
        rule="rapid-generated workloads in a binary built with the Go race detector: 40% life-cycle histories (C10 generator: scripted / Triangle / SimPulse / "
             "Erroring / Abaco with scripted producer / Abaco over real UDP; concurrent Stops, self-termination, queued requests, writing, raw-data archive "
             "requests back to back, restarts), 30% request histories on a real SourceControl (C11 generator: all request types, writing, group triggers, "
             "state labels, SENDALL, map load), 20% Lancero reader runs with mix changes, external triggers and gaps (C04 generator, scripted card), 10% status "
             "publisher histories (C16 generator). non-trivial as defined by the embedded workload's own rule; distinct = FNV-64 of the case",
        level_text="Zero race-detector reports over all executed workloads. The detector decides happens-before for the executions that were run: a report is "
                   "a proof of a race in that execution, silence is not a proof of absence for other workloads or code paths.",
        level_note="Reports whose two accesses both lie in harness code are ignored. The embedded workloads' own functional oracles are not judged here (a -race "
                   "build is slower; their verdicts belong to C04/C10/C11/C16), except panics.",
        assumptions=["a single client issues control requests (concurrent clients are outside the property)"],
    ),
}
