"""Per-property configuration of the generated-input checks (see DESIGN.md section 3)."""

CHECKS = {
    "C18": dict(
        pkg="./ringbuffer", hdir="ringbuffer", test="TestVerif_C18",
        quick=dict(shards=16, checks=20000, timeout=300),
        thorough=dict(shards=16, checks=400000, timeout=1500),
        technique="stateful property-based testing (rapid) against a reference FIFO model",
        level_text="Generated operation histories on the real shm-backed ring (writer+reader objects) are compared step by step with a "
                   "reference queue; every byte returned is checked against the absolute position it must come from, so loss, duplication "
                   "and reordering across the wrap point and at the full/empty boundaries are decided for every history explored. "
                   "Exploration, not proof: ~3e5 (quick) / ~6e6 (thorough) histories.",
        level_note="Trusts the harness' position-pattern oracle and the kernel's shm/mmap; single reader and writer, no concurrency.",
        rule="rapid-generated histories (1-40 ops) of Write/Read/ReadMultipleOf/ReadAll/DiscardStride/DiscardAll on a "
             "Create()d writer and an Open()ed reader of one shm ring (sizes 2..4096 incl. primes and powers of two), compared with a "
             "reference queue of absolute positions; non-trivial = some read wrapped the end of the buffer AND the buffer was exactly "
             "full or exactly empty (after holding data) at some step; distinct = distinct FNV-64 of the generated case",
        assumptions=["single-threaded use of writer and reader (no concurrent writer while reading)",
                     "a Read/ReadMultipleOf may legitimately return fewer bytes than are readable; only ReadAll must return all"],
    ),
}
