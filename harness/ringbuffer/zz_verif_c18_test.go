//go:build verif

package ringbuffer

// C18: the shared-memory ring buffer is a loss-free, duplication-free FIFO across wrap.
// Generated histories of Write/Read/ReadMultipleOf/ReadAll/DiscardStride/DiscardAll on a writer
// (Create) and a reader (Open) of the same shm pair, compared with a reference queue that only
// knows absolute positions.

import (
	"fmt"
	"os"
	"testing"

	"pgregory.net/rapid"
)

func TestMain(m *testing.M) { vMain(m, nil) }

type c18Op struct {
	Op string `json:"op"` // write read readmult readall discard discardall recreate
	N  int    `json:"n"`
}

type c18Case struct {
	Size int     `json:"size"`
	Ops  []c18Op `json:"ops"`
}

func c18Pattern(pos uint64) byte { return byte(pos*131 + (pos>>8)*17 + 5) }

func c18Gen(t *rapid.T) c18Case {
	var size int
	switch rapid.IntRange(0, 9).Draw(t, "sizeclass") {
	case 0, 1, 2, 3:
		size = rapid.IntRange(2, 17).Draw(t, "size")
	case 4, 5, 6:
		size = rapid.SampledFrom([]int{8, 16, 32, 64, 13, 31, 61, 97, 128, 127}).Draw(t, "size")
	case 7, 8:
		size = rapid.IntRange(18, 300).Draw(t, "size")
	default:
		size = rapid.SampledFrom([]int{1024, 4096, 4093, 2048, 1021}).Draw(t, "size")
	}
	genN := func(label string) int {
		switch rapid.IntRange(0, 7).Draw(t, label+"class") {
		case 0:
			return rapid.IntRange(0, 3).Draw(t, label)
		case 1:
			return size - 1
		case 2:
			return rapid.IntRange(size-2, size+2).Draw(t, label)
		case 3:
			return rapid.IntRange(size, 2*size+3).Draw(t, label)
		default:
			return rapid.IntRange(0, size).Draw(t, label)
		}
	}
	n := rapid.IntRange(1, 40).Draw(t, "nops")
	ops := make([]c18Op, n)
	for i := range ops {
		switch rapid.IntRange(0, 15).Draw(t, "opclass") {
		case 0, 1, 2, 3, 4, 5:
			ops[i] = c18Op{"write", genN("wn")}
		case 6, 7, 8, 9:
			ops[i] = c18Op{"read", genN("rn")}
		case 10, 11:
			ops[i] = c18Op{"readmult", rapid.IntRange(1, size+1).Draw(t, "k")}
		case 12:
			ops[i] = c18Op{"readall", 0}
		case 13, 14:
			ops[i] = c18Op{"discard", rapid.IntRange(1, size+3).Draw(t, "stride")}
		default:
			ops[i] = c18Op{"discardall", 0}
		}
		if rapid.IntRange(0, 14).Draw(t, "reattach") == 0 {
			// the reading process detaches from the ring and attaches again (a restart of the reader): what it had not read is still there
			ops[i] = c18Op{"reattach", 0}
		}
		if rapid.IntRange(0, 24).Draw(t, "recreate") == 0 {
			// the writing process goes away without unlinking and a new one creates the ring again under the same names
			ops[i] = c18Op{"recreate", rapid.IntRange(0, 1).Draw(t, "reopen")}
		}
	}
	return c18Case{Size: size, Ops: ops}
}

func c18Run(c c18Case) (v vVerdict) {
	name := fmt.Sprintf("verif_c18_%d_%s", os.Getpid(), os.Getenv("VERIF_SHARD"))
	wr, _ := NewRingBuffer(name+"_raw", name+"_desc")
	wr.Unlink()
	if err := wr.Create(c.Size); err != nil {
		panic("harness: create: " + err.Error())
	}
	defer func() { wr.Close(); wr.Unlink() }()
	rd, _ := NewRingBuffer(name+"_raw", name+"_desc")
	if err := rd.Open(); err != nil {
		panic("harness: open: " + err.Error())
	}
	defer func() { rd.Close() }()

	var W, R uint64 // positions counted from the last Create
	var salt uint64 // makes the byte pattern of each life of the ring different
	recreated := false
	reattached := false
	size := uint64(c.Size)
	wrapped, fullOrEmpty, everData := false, false, false
	checkRead := func(step int, what string, data []byte) *vVerdict {
		m := uint64(len(data))
		if m > W-R {
			f := vFailf("read-beyond-written", "step %d %s: returned %d bytes but only %d were accepted and unread", step, what, m, W-R)
			return &f
		}
		for i := uint64(0); i < m; i++ {
			if data[i] != c18Pattern(salt+R+i) {
				f := vFailf("fifo-mismatch", "step %d %s: byte %d of read is %d, want %d (abs pos %d; R=%d W=%d size=%d)",
					step, what, i, data[i], c18Pattern(salt+R+i), R+i, R, W, size)
				return &f
			}
		}
		if m > 0 && (R%size)+m > size {
			wrapped = true
		}
		R += m
		return nil
	}
	note := func() {
		if W-R == size-1 {
			fullOrEmpty = true
		}
		if W == R && everData {
			fullOrEmpty = true
		}
	}
	for step, op := range c.Ops {
		switch op.Op {
		case "write":
			data := make([]byte, op.N)
			for i := range data {
				data[i] = c18Pattern(salt + W + uint64(i))
			}
			n, err := wr.Write(data)
			if err != nil {
				return vFailf("write-error", "step %d write(%d): %v", step, op.N, err)
			}
			if n < 0 || n > op.N {
				return vFailf("write-count", "step %d write(%d) returned %d", step, op.N, n)
			}
			W += uint64(n)
			if n > 0 {
				everData = true
			}
			if W-R > size {
				return vFailf("write-overrun", "step %d write(%d) accepted %d: %d unread bytes exceed size %d", step, op.N, n, W-R, size)
			}
		case "read":
			avail := W - R
			data, err := rd.Read(op.N)
			if err != nil {
				return vFailf("read-error", "step %d read(%d): %v", step, op.N, err)
			}
			if len(data) > op.N {
				return vFailf("read-too-long", "step %d read(%d) returned %d bytes", step, op.N, len(data))
			}
			cp := append([]byte(nil), data...)
			if f := checkRead(step, fmt.Sprintf("read(%d)", op.N), cp); f != nil {
				return *f
			}
			_ = avail // a shorter read (e.g. up to the wrap point) is still a FIFO read: not judged
		case "readmult":
			avail := W - R
			data, err := rd.ReadMultipleOf(op.N)
			if uint64(op.N) >= size {
				if err == nil {
					return vFailf("readmult-noerror", "step %d ReadMultipleOf(%d) on size %d: no error", step, op.N, size)
				}
				break
			}
			if err != nil {
				return vFailf("read-error", "step %d ReadMultipleOf(%d): %v", step, op.N, err)
			}
			cp := append([]byte(nil), data...)
			if len(cp)%op.N != 0 {
				return vFailf("readmult-not-multiple", "step %d ReadMultipleOf(%d) returned %d bytes", step, op.N, len(cp))
			}
			if f := checkRead(step, fmt.Sprintf("ReadMultipleOf(%d)", op.N), cp); f != nil {
				return *f
			}
			_ = avail
		case "readall":
			avail := W - R
			data, err := rd.ReadAll()
			if err != nil {
				return vFailf("read-error", "step %d ReadAll: %v", step, err)
			}
			cp := append([]byte(nil), data...)
			if f := checkRead(step, "ReadAll", cp); f != nil {
				return *f
			}
			if uint64(len(cp)) != avail {
				return vFailf("readall-short", "step %d ReadAll returned %d of %d readable", step, len(cp), avail)
			}
		case "reattach":
			if err := rd.Close(); err != nil {
				return vFailf("reattach-error", "step %d: Close of the reading end: %v", step, err)
			}
			rd, _ = NewRingBuffer(name+"_raw", name+"_desc")
			if err := rd.Open(); err != nil {
				return vFailf("reattach-error", "step %d: Open after Close: %v", step, err)
			}
			if W > R {
				reattached = true
			}
		case "recreate":
			// A ring that Create has just returned is empty, whatever an earlier life left in the shared memory.
			wr.Close()
			wr, _ = NewRingBuffer(name+"_raw", name+"_desc")
			if err := wr.Create(c.Size); err != nil {
				return vFailf("recreate-error", "step %d: Create on the existing shared memory: %v", step, err)
			}
			if op.N == 1 {
				rd.Close()
				rd, _ = NewRingBuffer(name+"_raw", name+"_desc")
				if err := rd.Open(); err != nil {
					return vFailf("recreate-error", "step %d: Open after re-creation: %v", step, err)
				}
			}
			salt += 1000003
			if W != R || W > 0 {
				recreated = true
			}
			W, R = 0, 0
		case "discard", "discardall":
			k := uint64(op.N)
			var err error
			if op.Op == "discardall" {
				k = 1
				err = rd.DiscardAll()
			} else {
				err = rd.DiscardStride(k)
			}
			if err != nil {
				return vFailf("discard-error", "step %d: %v", step, err)
			}
			// The new read position is observable as W - BytesReadable().
			br := rd.BytesReadable()
			if br < 0 || uint64(br) > W-R {
				return vFailf("discard-backwards", "step %d DiscardStride(%d): %d bytes readable afterwards, only %d were unread before (R=%d W=%d): already-read bytes come back",
					step, k, br, W-R, R, W)
			}
			Rn := W - uint64(br)
			// largest multiple of k that is <= W
			top := W - W%k
			if top >= R { // a stride boundary exists in [R, W]
				if Rn%k != 0 {
					return vFailf("discard-off-stride", "step %d DiscardStride(%d): read position %d not on a stride boundary (R=%d W=%d)", step, k, Rn, R, W)
				}
				if W-Rn >= k {
					return vFailf("discard-not-emptied", "step %d DiscardStride(%d): %d bytes left, want < stride (R=%d W=%d)", step, k, W-Rn, R, W)
				}
			}
			R = Rn
		}
		note()
		if got := rd.BytesReadable(); uint64(got) != W-R {
			return vFailf("readable-count", "step %d after %s(%d): BytesReadable=%d, model %d", step, op.Op, op.N, got, W-R)
		}
	}
	// drain: everything accepted and not discarded must still come out, in order
	for i := 0; ; i++ {
		data, err := rd.ReadAll()
		if err != nil {
			return vFailf("read-error", "final ReadAll: %v", err)
		}
		cp := append([]byte(nil), data...)
		if f := checkRead(len(c.Ops)+i, "final ReadAll", cp); f != nil {
			return *f
		}
		if len(cp) == 0 {
			break
		}
	}
	if R != W {
		return vFailf("bytes-lost", "after draining, %d accepted bytes were never returned (R=%d W=%d)", W-R, R, W)
	}
	v.NonTrivial = wrapped && fullOrEmpty
	if wrapped {
		v.Classes = append(v.Classes, "read-wraps")
	}
	if fullOrEmpty {
		v.Classes = append(v.Classes, "exactly-full-or-empty")
	}
	if recreated {
		v.Classes = append(v.Classes, "recreated-after-use")
	}
	if reattached {
		v.Classes = append(v.Classes, "reader-reattached-with-unread-data")
	}
	for _, op := range c.Ops {
		if op.Op == "discard" {
			v.Classes = append(v.Classes, "has-discard")
			break
		}
	}
	return v
}

func TestVerif_C18(t *testing.T) { vCheck(t, "C18", c18Gen, c18Run) }
