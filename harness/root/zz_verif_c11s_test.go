//go:build verif

package dastard

// C11 (second harness): requests arriving while a Start is still in progress. The real SourceControl starts its ROACH
// source, whose device (a loopback sender) stays silent for a generated time, so Start spends up to a second sampling.
// Meanwhile a second client connection sends requests: each must be answered (with whatever result). Once Start has
// returned success, valid requests and Stop must be served - the requests that came during the Start must not have
// disturbed the server's idea of the running source.

import (
	"bytes"
	"encoding/binary"
	"fmt"
	"net"
	"os"
	"strconv"
	"testing"
	"time"

	"github.com/spf13/viper"
	"pgregory.net/rapid"
)

type c11sCase struct {
	Nchan    int      `json:"nchan"`
	SilentMs int      `json:"silent_ms"` // the device starts sending this long after Start was called (< 1000: the sampling deadline)
	During   []string `json:"during"`    // requests sent while Start runs: sendall trig lengths label comment
	GapMs    []int    `json:"gap_ms"`
}

func c11sGen(t *rapid.T) c11sCase {
	c := c11sCase{Nchan: rapid.IntRange(1, 3).Draw(t, "nchan"), SilentMs: rapid.SampledFrom([]int{0, 150, 400, 700}).Draw(t, "silent")}
	n := rapid.IntRange(0, 4).Draw(t, "nduring")
	for i := 0; i < n; i++ {
		c.During = append(c.During, rapid.SampledFrom([]string{"sendall", "sendall", "trig", "lengths", "label", "comment"}).Draw(t, "req"))
		c.GapMs = append(c.GapMs, rapid.SampledFrom([]int{0, 20, 100, 300}).Draw(t, "gap"))
	}
	return c
}

var c11sCounter int

func c11sRun(c c11sCase) (v vVerdict) {
	if c.Nchan < 1 || c.Nchan > 8 || c.SilentMs < 0 || c.SilentMs > 900 || len(c.During) != len(c.GapMs) || len(c.During) > 10 {
		return v
	}
	c11sCounter++
	vDrainRecords()
	viper.Reset()
	sc := NewSourceControl()
	sc.clientUpdates = clientMessageChan
	ms := newMapServer()
	ms.clientUpdates = clientMessageChan
	sc.mapServer = ms
	sc.status.Npresamp, sc.status.Nsamples = 8, 32
	sc.ActiveSource = sc.triangle
	hbStop := make(chan struct{})
	go func() {
		for {
			select {
			case <-sc.heartbeats:
			case <-hbStop:
				return
			}
		}
	}()
	defer close(hbStop)
	e := &c11Env{c: &c11Case{}, sc: sc, classes: map[string]bool{}}
	shard, _ := strconv.Atoi(os.Getenv("VERIF_SHARD"))
	port := 0
	var okc bool
	for try := 0; try < 40 && port == 0; try++ {
		cand := 27000 + (shard%64)*40 + (os.Getpid()*7+c11sCounter*3+try)%40
		if err := sc.ConfigureRoachSource(&RoachSourceConfig{HostPort: []string{fmt.Sprintf("127.0.0.1:%d", cand)}, Rates: []float64{10000}}, &okc); err == nil {
			port = cand
		}
	}
	if port == 0 {
		return vVerdict{Inconclusive: "no free UDP port for the ROACH device"}
	}
	defer sc.roach.Delete()
	stopSend := make(chan struct{})
	defer close(stopSend)
	go func() { // the board: silent at first, then a packet every 2 ms
		select {
		case <-time.After(time.Duration(c.SilentMs) * time.Millisecond):
		case <-stopSend:
			return
		}
		conn, err := net.Dial("udp", fmt.Sprintf("127.0.0.1:%d", port))
		if err != nil {
			return
		}
		defer conn.Close()
		tk := time.NewTicker(2 * time.Millisecond)
		defer tk.Stop()
		n := uint64(0)
		for {
			select {
			case <-stopSend:
				return
			case <-tk.C:
				buf := new(bytes.Buffer)
				binary.Write(buf, binary.BigEndian, packetHeader{Nchan: uint16(c.Nchan), Nsamp: 20, Flags: 1, Sampnum: n})
				d := make([]uint16, 20*c.Nchan)
				for i := range d {
					d[i] = uint16(int(n) + 3*i)
				}
				binary.Write(buf, binary.BigEndian, d)
				conn.Write(buf.Bytes())
				n += 20
			}
		}
	}()
	startDone := make(chan error, 1)
	go func() {
		name := "ROACHSOURCE"
		var ok bool
		startDone <- sc.Start(&name, &ok)
	}()
	// the second client
	send := func(kind string) *vVerdict {
		var bad *vVerdict
		switch kind {
		case "sendall":
			_, bad = e.call("SendAllStatus", func() error { var r bool; d := ""; return sc.SendAllStatus(&d, &r) })
		case "trig":
			_, bad = e.call("ConfigureTriggers", func() error {
				var r bool
				return sc.ConfigureTriggers(&FullTriggerState{ChannelIndices: []int{0}, TriggerState: TriggerState{AutoTrigger: true, AutoDelay: 5 * time.Millisecond}}, &r)
			})
		case "lengths":
			_, bad = e.call("ConfigurePulseLengths", func() error { var r bool; return sc.ConfigurePulseLengths(SizeObject{Nsamp: 40, Npre: 10}, &r) })
		case "label":
			_, bad = e.call("SetExperimentStateLabel", func() error {
				var r bool
				return sc.SetExperimentStateLabel(&StateLabelConfig{Label: "x", WaitForError: true}, &r)
			})
		case "comment":
			_, bad = e.call("WriteComment", func() error { var r bool; s := "hello"; return sc.WriteComment(&s, &r) })
		}
		return bad
	}
	during := 0
	for i, k := range c.During {
		time.Sleep(time.Duration(c.GapMs[i]) * time.Millisecond)
		select {
		case err := <-startDone:
			startDone <- err
		default:
			during++
		}
		if bad := send(k); bad != nil {
			return *bad
		}
	}
	var serr error
	select {
	case serr = <-startDone:
	case <-time.After(8 * time.Second):
		return vVerdict{Inconclusive: "Start of the ROACH source did not return within 8 s"}
	}
	if serr != nil {
		return v // the device was silent for too long: a failed start, nothing more to ask
	}
	defer func() {
		if sc.isSourceActive || sc.ActiveSource.Running() {
			sc.ActiveSource.Stop()
		}
	}()
	time.Sleep(20 * time.Millisecond)
	// now the source runs: valid requests must be served
	for _, k := range []string{"trig", "lengths", "sendall"} {
		var err error
		var bad *vVerdict
		switch k {
		case "trig":
			err, bad = e.call("ConfigureTriggers", func() error {
				var r bool
				return sc.ConfigureTriggers(&FullTriggerState{ChannelIndices: []int{0}, TriggerState: TriggerState{AutoTrigger: true, AutoDelay: 5 * time.Millisecond}}, &r)
			})
		case "lengths":
			err, bad = e.call("ConfigurePulseLengths", func() error { var r bool; return sc.ConfigurePulseLengths(SizeObject{Nsamp: 48, Npre: 12}, &r) })
		default:
			err, bad = e.call("SendAllStatus", func() error { var r bool; d := ""; return sc.SendAllStatus(&d, &r) })
		}
		if bad != nil {
			return *bad
		}
		if err != nil {
			return vFailf("valid-rejected-after-start", "Start returned success (%d requests of another client had arrived while it ran: %v), yet a valid %s request is answered: %v", during, c.During, k, err)
		}
	}
	err, bad := e.call("Stop", func() error { var r bool; d := ""; return sc.Stop(&d, &r) })
	if bad != nil {
		return *bad
	}
	if err != nil {
		return vFailf("stop-rejected-after-start", "Start returned success (%d requests of another client had arrived while it ran), yet Stop is answered: %v", during, err)
	}
	if sc.ActiveSource.Running() {
		return vFailf("stop-left-running", "Stop returned success but the ROACH source still runs")
	}
	v.NonTrivial = during > 0
	if during > 0 {
		v.Classes = append(v.Classes, "requests-during-start")
	}
	return v
}

func TestVerif_C11S(t *testing.T) { vCheck(t, "C11S", c11sGen, c11sRun) }
