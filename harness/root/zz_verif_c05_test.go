//go:build verif

package dastard

// C05: output files (LJH 2.2, LJH 3, OFF) are well-formed and hold exactly the records.
// A DataPublisher is configured through the real Set* calls with generated channel/geometry
// parameters and projector/basis matrices, then driven by a generated history of
// publish / flush / pause / unpause, and finally stopped (Remove*).  The files on disk are decoded by
// the independent readers of zz_verif_decoders_test.go and compared with the model: header = the
// parameters, body = exactly the records published while unpaused, in order.

import (
	"fmt"
	"math"
	"os"
	"path/filepath"
	"strconv"
	"strings"
	"testing"
	"time"

	"gonum.org/v1/gonum/mat"
	"pgregory.net/rapid"
)

type c05Rec struct {
	N      int       `json:"n"` // samples
	Pre    int       `json:"pre"`
	Seed   int       `json:"seed"`
	Frame  int64     `json:"frame"`
	TimeNs int64     `json:"time_ns"`
	Mean   float64   `json:"mean"`
	Delta  float64   `json:"delta"`
	Std    float64   `json:"std"`
	Coefs  []float64 `json:"coefs"`
}

type c05Op struct {
	Op   string   `json:"op"` // publish flush pause unpause restart
	Recs []c05Rec `json:"recs,omitempty"`
}

type c05Params struct {
	ChanIndex   int     `json:"chan_index"`
	ChanNumber  int     `json:"chan_number"`
	ChanName    string  `json:"chan_name"`
	Source      string  `json:"source"`
	Npre        int     `json:"npre"`
	Nsamp       int     `json:"nsamp"`
	FPS         int     `json:"frames_per_sample"`
	Timebase    float64 `json:"timebase"`
	OffsetNs    int64   `json:"timestamp_offset_ns"`
	Rows        int     `json:"rows"`
	Cols        int     `json:"cols"`
	Chans       int     `json:"chans"`
	SubDiv      int     `json:"subframe_divisions"`
	Row         int     `json:"row"`
	Col         int     `json:"col"`
	SubOff      int     `json:"subframe_offset"`
	PixX        int     `json:"pix_x"`
	PixY        int     `json:"pix_y"`
	PixName     string  `json:"pix_name"`
	NBases      int     `json:"nbases"`
	Proj        []float64 `json:"proj,omitempty"`
	Basis       []float64 `json:"basis,omitempty"`
	Description string  `json:"description"`
}

type c05Case struct {
	P     c05Params `json:"params"`
	LJH22 bool      `json:"ljh22"`
	LJH3  bool      `json:"ljh3"`
	OFF   bool      `json:"off"`
	// PrePause: a PAUSE arrived while nothing was being written (legal); starting to write must lift it,
	// as every Set* does and as the reported writing state says after START
	PrePause bool    `json:"pre_pause,omitempty"`
	Ops      []c05Op `json:"ops"`
}

func c05GenName(t *rapid.T, label string) string {
	return rapid.StringMatching(`[A-Za-z][A-Za-z0-9_]{0,11}`).Draw(t, label)
}

func c05GenFinite(t *rapid.T, label string) float64 {
	switch rapid.IntRange(0, 5).Draw(t, label+"k") {
	case 0:
		return 0
	case 1:
		return math.MaxFloat64 * rapid.SampledFrom([]float64{1, -1}).Draw(t, label+"s")
	case 2:
		return math.SmallestNonzeroFloat64
	default:
		return rapid.Float64Range(-1e6, 1e6).Draw(t, label)
	}
}

func c05GenParams(t *rapid.T) c05Params {
	var p c05Params
	p.ChanIndex = rapid.IntRange(0, 65535).Draw(t, "chanindex")
	p.ChanNumber = rapid.IntRange(0, 100000).Draw(t, "channumber")
	p.ChanName = rapid.SampledFrom([]string{"chan", "err", "x"}).Draw(t, "prefix") + strconv.Itoa(p.ChanNumber)
	p.Source = c05GenName(t, "source")
	p.Nsamp = rapid.SampledFrom([]int{1, 2, 4, 5, 16, 37, 100, 300}).Draw(t, "nsamp")
	p.Npre = rapid.IntRange(0, p.Nsamp).Draw(t, "npre")
	p.FPS = rapid.SampledFrom([]int{1, 1, 1, 2, 16}).Draw(t, "fps")
	p.Timebase = rapid.SampledFrom([]float64{1e-6, 5e-8, 6.4e-6, 3.2e-7, 1.0 / 244140.625, 0.001, 1.2345678912345e-5, 9.999999e-7}).Draw(t, "timebase")
	p.OffsetNs = rapid.Int64Range(0, 4e18).Draw(t, "offset")
	p.Rows = rapid.IntRange(0, 65535).Draw(t, "rows")
	p.Cols = rapid.IntRange(0, 65535).Draw(t, "cols")
	p.Chans = rapid.IntRange(0, 65535).Draw(t, "chans")
	p.SubDiv = rapid.SampledFrom([]int{1, 2, 8, 32, 64, 11}).Draw(t, "subdiv")
	p.Row = rapid.IntRange(0, 65535).Draw(t, "row")
	p.Col = rapid.IntRange(0, 65535).Draw(t, "col")
	p.SubOff = rapid.IntRange(0, 63).Draw(t, "suboff")
	p.PixX = rapid.IntRange(-1000, 1000).Draw(t, "pixx")
	p.PixY = rapid.IntRange(-1000, 1000).Draw(t, "pixy")
	p.PixName = c05GenName(t, "pixname")
	p.Description = c05GenName(t, "desc")
	p.NBases = rapid.IntRange(1, 6).Draw(t, "nbases")
	for i := 0; i < p.NBases*p.Nsamp; i++ {
		p.Proj = append(p.Proj, c05GenFinite(t, "p"))
	}
	for i := 0; i < p.NBases*p.Nsamp; i++ {
		p.Basis = append(p.Basis, c05GenFinite(t, "b"))
	}
	return p
}

func c05GenRec(t *rapid.T, p c05Params, variable bool, subdiv int) c05Rec {
	var r c05Rec
	r.N, r.Pre = p.Nsamp, p.Npre
	if variable && rapid.Bool().Draw(t, "short") {
		r.N = rapid.IntRange(1, p.Nsamp).Draw(t, "n")
		r.Pre = rapid.IntRange(0, r.N).Draw(t, "pre")
	}
	r.Seed = rapid.IntRange(0, 1<<20).Draw(t, "seed")
	lim := int64(1) << 62
	if subdiv > 1 {
		lim = int64(1) << 55
	}
	switch rapid.IntRange(0, 6).Draw(t, "frameclass") {
	case 0:
		r.Frame = 0
	case 1:
		r.Frame = lim - rapid.Int64Range(0, 5).Draw(t, "fhi")
	case 2:
		r.Frame = -rapid.Int64Range(0, lim).Draw(t, "fneg")
	default:
		r.Frame = rapid.Int64Range(0, lim).Draw(t, "frame")
	}
	switch rapid.IntRange(0, 5).Draw(t, "timeclass") {
	case 0:
		r.TimeNs = 0
	case 1:
		r.TimeNs = rapid.Int64Range(math.MinInt64, -1).Draw(t, "tneg")
	case 2:
		r.TimeNs = math.MaxInt64 - rapid.Int64Range(0, 2000).Draw(t, "tmax")
	default:
		r.TimeNs = rapid.Int64Range(1, math.MaxInt64).Draw(t, "time")
	}
	r.Mean = c05GenFinite(t, "mean")
	r.Delta = c05GenFinite(t, "delta")
	r.Std = c05GenFinite(t, "std")
	for k := 0; k < p.NBases; k++ {
		r.Coefs = append(r.Coefs, c05GenFinite(t, "coef"))
	}
	return r
}

func c05Gen(t *rapid.T) c05Case {
	var c c05Case
	c.P = c05GenParams(t)
	mask := rapid.IntRange(1, 7).Draw(t, "types")
	c.LJH22, c.LJH3, c.OFF = mask&1 != 0, mask&2 != 0, mask&4 != 0
	c.PrePause = rapid.IntRange(0, 4).Draw(t, "prepause") == 0
	// records of other lengths (edge-multi short records, or lengths reconfigured elsewhere) may reach any publisher:
	// LJH3 and OFF store them, LJH 2.2 cannot represent them and must leave them out
	variable := (!c.LJH22 && !c.OFF) || rapid.IntRange(0, 3).Draw(t, "oddlengths") == 0
	if rapid.IntRange(0, 7).Draw(t, "tworuns") == 0 {
		// two runs of the same shape on one publisher: as many records before the flush in the second run as in the first
		n := rapid.IntRange(1, 3).Draw(t, "runrecs")
		mk := func() c05Op {
			op := c05Op{Op: "publish"}
			for k := 0; k < n; k++ {
				op.Recs = append(op.Recs, c05GenRec(t, c.P, false, c.P.SubDiv))
			}
			return op
		}
		fl := rapid.SampledFrom([]string{"flush", "pause"}).Draw(t, "runflush")
		c.Ops = append(c.Ops, mk(), c05Op{Op: fl}, c05Op{Op: "restart"}, mk(), c05Op{Op: fl}, c05Op{Op: "flush"})
		return c
	}
	nops := rapid.IntRange(1, 12).Draw(t, "nops")
	for i := 0; i < nops; i++ {
		switch rapid.IntRange(0, 10).Draw(t, "opclass") {
		case 10:
			c.Ops = append(c.Ops, c05Op{Op: "restart"})
		case 0:
			c.Ops = append(c.Ops, c05Op{Op: "pause"})
		case 1, 2:
			c.Ops = append(c.Ops, c05Op{Op: "unpause"})
		case 3, 4:
			c.Ops = append(c.Ops, c05Op{Op: "flush"})
		default:
			op := c05Op{Op: "publish"}
			n := rapid.IntRange(1, 3).Draw(t, "nrecs")
			for k := 0; k < n; k++ {
				op.Recs = append(op.Recs, c05GenRec(t, c.P, variable, c.P.SubDiv))
			}
			c.Ops = append(c.Ops, op)
		}
	}
	return c
}

func (r c05Rec) sample(i int) uint16 { return uint16(r.Seed*40503 + i*2654435761 + i*i) }

func (r c05Rec) record(chanIndex int) *DataRecord {
	rec := &DataRecord{channelIndex: chanIndex, presamples: r.Pre, trigFrame: FrameIndex(r.Frame), trigTime: time.Unix(0, r.TimeNs),
		pretrigMean: r.Mean, pretrigDelta: r.Delta, residualStdDev: r.Std, modelCoefs: append([]float64(nil), r.Coefs...)}
	rec.data = make([]RawType, r.N)
	for i := range rec.data {
		rec.data[i] = RawType(r.sample(i))
	}
	return rec
}

var c05Counter int

// c05FullLength keeps the records an LJH 2.2 file can hold: exactly the configured length.
func c05FullLength(recs []c05Rec, nsamp int) []c05Rec {
	var out []c05Rec
	for _, r := range recs {
		if r.N == nsamp {
			out = append(out, r)
		}
	}
	return out
}

// c05CheckLJH22 compares a decoded LJH 2.2 image with the parameters and the accepted records.
func c05CheckLJH22(b []byte, p c05Params, want []c05Rec) string {
	f, err := vDecodeLJH22(b)
	if err != nil {
		return "LJH2.2: " + err.Error()
	}
	ints := map[string]int{
		"Presamples": p.Npre, "Total Samples": p.Nsamp, "Channel": p.ChanNumber, "ChannelIndex (in dastard)": p.ChanIndex,
		"Number of rows": p.Rows, "Number of columns": p.Cols, "Number of channels": p.Chans,
		"Subframe divisions": p.SubDiv, "Subframe offset": p.SubOff, "Number of samples per point": p.FPS,
		"Pixel X Position": p.PixX, "Pixel Y Position": p.PixY,
		fmt.Sprintf("Row number (from 0-%d inclusive)", p.Rows-1):      p.Row,
		fmt.Sprintf("Column number (from 0-%d inclusive)", p.Cols-1): p.Col,
	}
	for k, w := range ints {
		g, err := f.intField(k)
		if err != nil {
			return "LJH2.2: " + err.Error()
		}
		if g != w {
			return fmt.Sprintf("LJH2.2 header %q is %d, want %d", k, g, w)
		}
	}
	strs := map[string]string{"Channel name": p.ChanName, "Data source": p.Source, "Pixel Name": p.PixName}
	for k, w := range strs {
		if g := f.Header[k]; g != w {
			return fmt.Sprintf("LJH2.2 header %q is %q, want %q", k, g, w)
		}
	}
	tb, err := strconv.ParseFloat(strings.TrimSpace(f.Header["Timebase"]), 64)
	if err != nil {
		return fmt.Sprintf("LJH2.2 header Timebase %q unparsable", f.Header["Timebase"])
	}
	if math.Abs(tb-p.Timebase) > 1e-6*p.Timebase {
		return fmt.Sprintf("LJH2.2 header Timebase %v, want %v to 7 significant digits", tb, p.Timebase)
	}
	to, err := strconv.ParseFloat(strings.TrimSpace(f.Header["Timestamp offset (s)"]), 64)
	if err != nil || math.Abs(to-float64(p.OffsetNs)/1e9) > 1e-5*(1+float64(p.OffsetNs)/1e9*1e-9) {
		return fmt.Sprintf("LJH2.2 header Timestamp offset %q, want %.6f", f.Header["Timestamp offset (s)"], float64(p.OffsetNs)/1e9)
	}
	if len(f.Records) != len(want) {
		return fmt.Sprintf("LJH2.2 file holds %d records, want %d", len(f.Records), len(want))
	}
	for i, w := range want {
		g := f.Records[i]
		if g.Subframe != w.Frame*int64(p.SubDiv)+int64(p.SubOff) {
			return fmt.Sprintf("LJH2.2 record %d: sub-frame count %d, want %d*%d+%d", i, g.Subframe, w.Frame, p.SubDiv, p.SubOff)
		}
		if g.TimeUs != w.TimeNs/1000 {
			return fmt.Sprintf("LJH2.2 record %d: timestamp %d us, want %d", i, g.TimeUs, w.TimeNs/1000)
		}
		for k := range g.Samples {
			if g.Samples[k] != w.sample(k) {
				return fmt.Sprintf("LJH2.2 record %d sample %d: %d, want %d", i, k, g.Samples[k], w.sample(k))
			}
		}
	}
	if len(b) != f.HeaderLen+len(want)*(16+2*p.Nsamp) {
		return fmt.Sprintf("LJH2.2 file is %d bytes, want header %d + %d records of %d", len(b), f.HeaderLen, len(want), 16+2*p.Nsamp)
	}
	return ""
}

func c05CheckLJH3(b []byte, p c05Params, want []c05Rec, row, col int) string {
	f, err := vDecodeLJH3(b)
	if err != nil {
		return "LJH3: " + err.Error()
	}
	fp, err := vJSONFloat(f.Header, "frameperiod")
	if err != nil || fp != p.Timebase {
		return fmt.Sprintf("LJH3 header frameperiod %v (%v), want %v", fp, err, p.Timebase)
	}
	if s, _ := vJSONString(f.Header, "File Format"); s != "LJH3" {
		return fmt.Sprintf("LJH3 header File Format %q", s)
	}
	ints := map[string]int{"NumberOfRows": p.Rows, "NumberOfColumns": p.Cols, "SubframeDivisions": p.SubDiv, "SubframeOffset": p.SubOff, "Row": row, "Column": col}
	for k, w := range ints {
		g, err := vJSONInt(f.Header, "TDM", k)
		if err != nil {
			return "LJH3: " + err.Error()
		}
		if g != w {
			return fmt.Sprintf("LJH3 header TDM.%s is %d, want %d", k, g, w)
		}
	}
	if len(f.Records) != len(want) {
		return fmt.Sprintf("LJH3 file holds %d records, want %d", len(f.Records), len(want))
	}
	size := f.HeaderLen
	for i, w := range want {
		g := f.Records[i]
		size += 24 + 2*w.N
		if len(g.Samples) != w.N {
			return fmt.Sprintf("LJH3 record %d has %d samples, want %d", i, len(g.Samples), w.N)
		}
		if int(g.First) != w.Pre+1 {
			return fmt.Sprintf("LJH3 record %d: first rising sample %d, want presamples+1 = %d", i, g.First, w.Pre+1)
		}
		if g.Frame != w.Frame {
			return fmt.Sprintf("LJH3 record %d: frame %d, want %d", i, g.Frame, w.Frame)
		}
		if g.TimeUs != w.TimeNs/1000 {
			return fmt.Sprintf("LJH3 record %d: timestamp %d us, want %d", i, g.TimeUs, w.TimeNs/1000)
		}
		for k := range g.Samples {
			if g.Samples[k] != w.sample(k) {
				return fmt.Sprintf("LJH3 record %d sample %d: %d, want %d", i, k, g.Samples[k], w.sample(k))
			}
		}
	}
	if len(b) != size {
		return fmt.Sprintf("LJH3 file is %d bytes, want %d", len(b), size)
	}
	return ""
}

func c05CheckOFF(b []byte, p c05Params, want []c05Rec) string {
	f, err := vDecodeOFF(b)
	if err != nil {
		return "OFF: " + err.Error()
	}
	type iv struct {
		path []string
		want int
	}
	for _, x := range []iv{
		{[]string{"ChannelIndex"}, p.ChanIndex}, {[]string{"ChannelNumberMatchingName"}, p.ChanNumber},
		{[]string{"MaxPresamples"}, p.Npre}, {[]string{"MaxSamples"}, p.Nsamp}, {[]string{"NumberOfBases"}, p.NBases},
		{[]string{"ModelInfo", "Projectors", "Rows"}, p.NBases}, {[]string{"ModelInfo", "Projectors", "Cols"}, p.Nsamp},
		{[]string{"ModelInfo", "Basis", "Rows"}, p.Nsamp}, {[]string{"ModelInfo", "Basis", "Cols"}, p.NBases},
		{[]string{"ReadoutInfo", "NumberOfRows"}, p.Rows}, {[]string{"ReadoutInfo", "NumberOfColumns"}, p.Cols},
		{[]string{"ReadoutInfo", "NumberOfChans"}, p.Chans}, {[]string{"ReadoutInfo", "SubframeDivisions"}, p.SubDiv},
		{[]string{"ReadoutInfo", "ColumnNum"}, p.Col}, {[]string{"ReadoutInfo", "RowNum"}, p.Row},
		{[]string{"ReadoutInfo", "SubframeOffset"}, p.SubOff},
		{[]string{"PixelInfo", "XPosition"}, p.PixX}, {[]string{"PixelInfo", "YPosition"}, p.PixY},
	} {
		g, err := vJSONInt(f.Header, x.path...)
		if err != nil {
			return "OFF: " + err.Error()
		}
		if g != x.want {
			return fmt.Sprintf("OFF header %v is %d, want %d", x.path, g, x.want)
		}
	}
	type sv struct {
		path []string
		want string
	}
	for _, x := range []sv{{[]string{"ChannelName"}, p.ChanName}, {[]string{"FileFormat"}, "OFF"}, {[]string{"FileFormatVersion"}, "0.3.0"},
		{[]string{"ModelInfo", "Description"}, p.Description}, {[]string{"CreationInfo", "SourceName"}, p.Source},
		{[]string{"PixelInfo", "Name"}, p.PixName}} {
		g, err := vJSONString(f.Header, x.path...)
		if err != nil {
			return "OFF: " + err.Error()
		}
		if g != x.want {
			return fmt.Sprintf("OFF header %v is %q, want %q", x.path, g, x.want)
		}
	}
	if fp, err := vJSONFloat(f.Header, "FramePeriodSeconds"); err != nil || fp != p.Timebase {
		return fmt.Sprintf("OFF header FramePeriodSeconds %v (%v), want %v", fp, err, p.Timebase)
	}
	for i, w := range p.Proj {
		if math.Float64bits(f.Projectors[i]) != math.Float64bits(w) {
			return fmt.Sprintf("OFF projector element %d is %v, want %v", i, f.Projectors[i], w)
		}
	}
	for i, w := range p.Basis {
		if math.Float64bits(f.Basis[i]) != math.Float64bits(w) {
			return fmt.Sprintf("OFF basis element %d is %v, want %v", i, f.Basis[i], w)
		}
	}
	if len(f.Records) != len(want) {
		return fmt.Sprintf("OFF file holds %d records, want %d", len(f.Records), len(want))
	}
	for i, w := range want {
		g := f.Records[i]
		if int(g.NSamp) != w.N || int(g.NPre) != w.Pre {
			return fmt.Sprintf("OFF record %d: samples/presamples %d/%d, want %d/%d", i, g.NSamp, g.NPre, w.N, w.Pre)
		}
		if g.Frame != w.Frame || g.TimeNs != w.TimeNs {
			return fmt.Sprintf("OFF record %d: frame %d time %d, want %d %d", i, g.Frame, g.TimeNs, w.Frame, w.TimeNs)
		}
		if !vF32BitsEqual(g.Mean, float32(w.Mean)) || !vF32BitsEqual(g.Delta, float32(w.Delta)) || !vF32BitsEqual(g.Std, float32(w.Std)) {
			return fmt.Sprintf("OFF record %d: mean/delta/std bits %x/%x/%x, want %v/%v/%v", i, g.Mean, g.Delta, g.Std, float32(w.Mean), float32(w.Delta), float32(w.Std))
		}
		for k, cw := range w.Coefs {
			if !vF32BitsEqual(g.Coefs[k], float32(cw)) {
				return fmt.Sprintf("OFF record %d coefficient %d: bits %x, want %v", i, k, g.Coefs[k], float32(cw))
			}
		}
	}
	if len(b) != f.HeaderLen+len(want)*(36+4*p.NBases) {
		return fmt.Sprintf("OFF file is %d bytes, want header %d + %d records of %d", len(b), f.HeaderLen, len(want), 36+4*p.NBases)
	}
	return ""
}

func c05Valid(c c05Case) bool {
	p := c.P
	if p.Nsamp < 1 || p.Nsamp > 5000 || p.Npre < 0 || p.Npre > p.Nsamp || p.NBases < 1 || len(p.Proj) != p.NBases*p.Nsamp ||
		len(p.Basis) != p.NBases*p.Nsamp || !(c.LJH22 || c.LJH3 || c.OFF) || p.SubDiv < 1 || strings.ContainsAny(p.ChanName+p.Source+p.PixName, " \n\r\t") {
		return false
	}
	for _, op := range c.Ops {
		for _, r := range op.Recs {
			if len(r.Coefs) != p.NBases || r.N < 1 || r.N > p.Nsamp || r.Pre < 0 || r.Pre > r.N {
				return false
			}
		}
	}
	return true
}

func c05Run(c c05Case) (v vVerdict) {
	if !c05Valid(c) {
		return v
	}
	p := c.P
	c05Counter++
	dir := os.Getenv("VERIF_WORK")
	if dir == "" {
		dir = os.TempDir()
	}
	base := filepath.Join(dir, fmt.Sprintf("c05_%d_%d", os.Getpid(), c05Counter))
	names := map[string]string{"ljh": base + ".ljh", "ljh3": base + ".ljh3", "off": base + ".off"}
	allNames := []string{names["ljh"], names["ljh3"], names["off"]}
	defer func() {
		for _, n := range allNames {
			os.Remove(n)
		}
	}()
	var dp DataPublisher
	if c.PrePause {
		dp.SetPause(true)
	}
	offset := time.Unix(0, p.OffsetNs)
	pixel := Pixel{X: p.PixX, Y: p.PixY, Name: p.PixName}
	run := 0
	install := func() { // what a START does for this channel
		if run > 0 {
			names = map[string]string{"ljh": fmt.Sprintf("%s_r%d.ljh", base, run), "ljh3": fmt.Sprintf("%s_r%d.ljh3", base, run), "off": fmt.Sprintf("%s_r%d.off", base, run)}
			allNames = append(allNames, names["ljh"], names["ljh3"], names["off"])
		}
		if c.LJH22 {
			dp.SetLJH22(p.ChanIndex, p.Npre, p.Nsamp, p.FPS, p.Timebase, offset, p.Rows, p.Cols, p.Chans, p.SubDiv, p.Row, p.Col, p.SubOff,
				names["ljh"], p.Source, p.ChanName, p.ChanNumber, pixel)
		}
		if c.OFF {
			P := mat.NewDense(p.NBases, p.Nsamp, append([]float64(nil), p.Proj...))
			B := mat.NewDense(p.Nsamp, p.NBases, append([]float64(nil), p.Basis...))
			dp.SetOFF(p.ChanIndex, p.Npre, p.Nsamp, p.FPS, p.Timebase, offset, p.Rows, p.Cols, p.Chans, p.SubDiv, p.Row, p.Col, p.SubOff,
				names["off"], p.Source, p.ChanName, p.ChanNumber, P, B, p.Description, pixel)
		}
		if c.LJH3 {
			dp.SetLJH3(p.ChanIndex, p.Timebase, p.Rows, p.Cols, p.SubDiv, p.SubOff, names["ljh3"])
		}
		run++
	}
	install()
	var accepted []c05Rec
	restarts := 0
	paused := false
	interleaved := false
	check := func(when string) *vVerdict {
		type fc struct {
			on   bool
			name string
			f    func([]byte) string
		}
		for _, x := range []fc{
			{c.LJH22, names["ljh"], func(b []byte) string { return c05CheckLJH22(b, p, c05FullLength(accepted, p.Nsamp)) }},
			{c.LJH3, names["ljh3"], func(b []byte) string { return c05CheckLJH3(b, p, accepted, 0, 0) }},
			{c.OFF, names["off"], func(b []byte) string { return c05CheckOFF(b, p, accepted) }},
		} {
			if !x.on {
				continue
			}
			b, err := os.ReadFile(x.name)
			if err != nil {
				if len(accepted) == 0 && os.IsNotExist(err) {
					continue // files are created lazily on the first accepted record
				}
				_ = x
				f := vFailf("file-missing", "%s: %v with %d accepted records", when, err, len(accepted))
				return &f
			}
			if msg := x.f(b); msg != "" {
				sig := "file-content"
				if strings.Contains(msg, "header") {
					sig = "file-header"
				} else if strings.Contains(msg, "partial record") || strings.Contains(msg, "bytes, want") {
					sig = "file-length"
				} else if strings.Contains(msg, "holds") {
					sig = "record-count"
				}
				f := vFailf(sig, "%s: %s", when, msg)
				return &f
			}
		}
		return nil
	}
	for i, op := range c.Ops {
		switch op.Op {
		case "pause":
			dp.SetPause(true)
			paused = true
			if len(accepted) > 0 {
				interleaved = true
			}
		case "restart":
			// STOP, then START again on the same publisher: the first files are complete, the next ones begin empty
			dp.RemoveLJH22()
			dp.RemoveOFF()
			dp.RemoveLJH3()
			if f := check(fmt.Sprintf("after the stop of run %d (op %d)", run, i)); f != nil {
				return *f
			}
			accepted = nil
			install()
			paused = false
			restarts++
		case "unpause":
			dp.SetPause(false)
			paused = false
		case "flush":
			dp.Flush()
			if len(accepted) > 0 {
				interleaved = true
			}
			if f := check(fmt.Sprintf("after flush (op %d)", i)); f != nil {
				return *f
			}
		case "publish":
			recs := make([]*DataRecord, len(op.Recs))
			for k, r := range op.Recs {
				recs[k] = r.record(p.ChanIndex)
			}
			if err := dp.PublishData(recs); err != nil {
				return vFailf("publish-error", "op %d: PublishData: %v", i, err)
			}
			if !paused {
				accepted = append(accepted, op.Recs...)
			}
		}
	}
	nw := dp.numberWritten
	dp.RemoveLJH22()
	dp.RemoveOFF()
	dp.RemoveLJH3()
	if f := check("after stop"); f != nil {
		return *f
	}
	_ = nw
	v.NonTrivial = len(accepted) >= 2 && interleaved
	for _, x := range []struct {
		on bool
		n  string
	}{{c.LJH22, "ljh22"}, {c.LJH3, "ljh3"}, {c.OFF, "off"}} {
		if x.on {
			v.Classes = append(v.Classes, x.n)
		}
	}
	if len(accepted) == 0 {
		v.Classes = append(v.Classes, "no-record-accepted")
	}
	if restarts > 0 {
		v.Classes = append(v.Classes, "second-run-on-the-same-publisher")
	}
	return v
}

func TestVerif_C05(t *testing.T) { vCheck(t, "C05", c05Gen, c05Run) }
