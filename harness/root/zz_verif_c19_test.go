//go:build verif

package dastard

// C19: channel identity is unique and consistent everywhere it is reported.
// Generated Lancero geometries (cards, columns, rows, first row, card/column separations) and Abaco
// channel-group layouts go through the real PrepareChannels (Abaco: Sample + PrepareChannels with a
// scripted packet producer).  For accepted configurations the identity tables are checked against
// the statement, and (for moderate sizes) a real START / one block / STOP cycle is run and the file
// names and decoded headers are compared with the tables.

import (
	"fmt"
	"os"
	"path/filepath"
	"sort"
	"testing"
	"time"

	"github.com/spf13/viper"
	"gonum.org/v1/gonum/mat"
	"pgregory.net/rapid"
)

type c19Dev struct {
	Devnum int `json:"devnum"`
	Cols   int `json:"cols"`
	Rows   int `json:"rows"`
}

type c19Group struct {
	First int `json:"first"`
	Nchan int `json:"nchan"`
}

type c19Case struct {
	Kind     string     `json:"kind"` // lancero abaco roach
	Devs     []c19Dev   `json:"devs,omitempty"`
	FirstRow int        `json:"first_row,omitempty"`
	SepCards int        `json:"sep_cards,omitempty"`
	SepCols  int        `json:"sep_cols,omitempty"`
	Groups   []c19Group `json:"groups,omitempty"`
	Nchan    int        `json:"nchan,omitempty"` // roach
	Twice    bool       `json:"twice,omitempty"` // prepare, then re-prepare with the second geometry (same source object)
	Devs2    []c19Dev   `json:"devs2,omitempty"`
	Write    bool       `json:"write,omitempty"`
	// ActiveList (lancero): the card list as a client sends it to Configure - the cards of Devs in some order, possibly with one
	// card named twice; then the real Configure decides which devices take part
	ActiveList []int `json:"active_list,omitempty"`
}

type c19Truth struct { // what the statement says about stream i
	err          bool // lancero error stream
	card, col    int
	row          int
	rows, cols   int
	number       int // only for abaco/roach, where the statement fixes the number
	numberKnown  bool
}

var c19Counter int

func c19CheckTables(ds *AnySource, truth []c19Truth, lancero bool) *vVerdict {
	fail := func(sig, f string, a ...any) *vVerdict { v := vFailf(sig, f, a...); return &v }
	n := len(truth)
	if len(ds.chanNames) != n || len(ds.chanNumbers) != n || len(ds.rowColCodes) != n {
		return fail("table-length", "tables have %d names, %d numbers, %d row/col codes for %d streams", len(ds.chanNames), len(ds.chanNumbers), len(ds.rowColCodes), n)
	}
	if got := ds.ChannelNames(); fmt.Sprint(got) != fmt.Sprint(ds.chanNames) {
		return fail("names-reported", "ChannelNames() reports %v, tables hold %v", got, ds.chanNames)
	}
	names := map[string]int{}
	byPlace := map[[3]int]int{} // (card,col,row) -> number
	byNumber := map[int][3]int{}
	used := map[int]bool{}
	for i, t := range truth {
		name, num := ds.chanNames[i], ds.chanNumbers[i]
		if j, dup := names[name]; dup {
			return fail("name-collision", "streams %d and %d are both named %q (two streams would share one output file)", j, i, name)
		}
		names[name] = i
		want := fmt.Sprintf("chan%d", num)
		if t.err {
			want = fmt.Sprintf("err%d", num)
		}
		if name != want {
			return fail("name-number-mismatch", "stream %d has number %d but is named %q, want %q", i, num, name, want)
		}
		if t.numberKnown && num != t.number {
			return fail("number-wrong", "stream %d has number %d, want %d", i, num, t.number)
		}
		place := [3]int{t.card, t.col, t.row}
		if lancero {
			if p, ok := byPlace[place]; ok {
				if p != num {
					return fail("partners-differ", "error and feedback stream of card %d col %d row %d have numbers %d and %d", t.card, t.col, t.row, p, num)
				}
			} else {
				if q, taken := byNumber[num]; taken {
					return fail("number-collision", "channel number %d is given to (card %d, col %d, row %d) and to (card %d, col %d, row %d)", num, q[0], q[1], q[2], t.card, t.col, t.row)
				}
				byPlace[place] = num
				byNumber[num] = place
			}
		} else {
			if used[num] {
				return fail("number-collision", "channel number %d is used by two streams", num)
			}
		}
		used[num] = true
		rc := ds.rowColCodes[i]
		if rc.row() != t.row || rc.col() != t.col || rc.rows() != t.rows || rc.cols() != t.cols {
			return fail("rowcol-code", "stream %d (%s): row/col code decodes to row %d col %d of %d x %d, true geometry is row %d col %d of %d rows x %d cols",
				i, name, rc.row(), rc.col(), rc.rows(), rc.cols(), t.row, t.col, t.rows, t.cols)
		}
	}
	// groups: disjoint, covering exactly the numbers in use
	covered := map[int]bool{}
	for _, g := range ds.ChanGroups() {
		if g.Nchan < 1 {
			return fail("group-empty", "reported group %+v is empty", g)
		}
		for c := g.Firstchan; c < g.Firstchan+g.Nchan; c++ {
			if covered[c] {
				return fail("groups-overlap", "channel number %d lies in two reported groups %v", c, ds.ChanGroups())
			}
			covered[c] = true
			if !used[c] {
				return fail("group-covers-unused", "reported groups %v cover channel number %d, which no stream has", ds.ChanGroups(), c)
			}
		}
	}
	for c := range used {
		if !covered[c] {
			return fail("group-misses-channel", "channel number %d is in use but in none of the reported groups %v", c, ds.ChanGroups())
		}
	}
	return nil
}

// c19WriteCycle runs START / one block / STOP on a prepared source and compares file names and headers with the tables.
func c19WriteCycle(ds *AnySource, root string, truth []c19Truth) *vVerdict {
	fail := func(sig, f string, a ...any) *vVerdict { v := vFailf(sig, f, a...); return &v }
	nchan := len(truth)
	const npre, nsamp = 4, 8
	viper.Reset()
	if err := ds.PrepareRun(npre, nsamp); err != nil {
		return fail("prepare", "PrepareRun: %v", err)
	}
	defer func() {
		ds.numberWrittenTicker.Stop()
		ds.writingState.externalTriggerTicker.Stop()
		ds.writingState.dataDropTicker.Stop()
	}()
	all := make([]int, nchan)
	for i := range all {
		all[i] = i
	}
	auto := vTrigCfg{Auto: true, AutoDelayNs: int64(nsamp) * 1000}
	if err := ds.ChangeTriggerState(&FullTriggerState{ChannelIndices: all, TriggerState: auto.state()}); err != nil {
		return fail("prepare", "%v", err)
	}
	P := mat.NewDense(2, nsamp, nil)
	B := mat.NewDense(nsamp, 2, nil)
	for i := 0; i < nsamp; i++ {
		P.Set(0, i, 1.0/nsamp)
		B.Set(i, 0, 1)
	}
	for ch := 0; ch < nchan; ch += 2 {
		ds.ConfigureProjectorsBases(ch, P, B, "verif")
	}
	ds.writingState.BasePath = root
	if err := ds.WriteControl(&WriteControlConfig{Request: "START", WriteLJH22: true, WriteLJH3: true, WriteOFF: true}); err != nil {
		return fail("start-rejected", "START: %v", err)
	}
	pattern := ds.ComputeWritingState().FilenamePattern
	block := &dataBlock{segments: make([]DataSegment, nchan), nSamp: 3 * nsamp}
	for ch := 0; ch < nchan; ch++ {
		raw := make([]RawType, 3*nsamp)
		for k := range raw {
			raw[k] = RawType(100*ch + k)
		}
		block.segments[ch] = DataSegment{rawData: raw, framesPerSample: 1, firstFrameIndex: 0, firstTime: vPipeT0, framePeriod: time.Microsecond}
	}
	if err := ds.ProcessSegments(block); err != nil {
		return fail("process-error", "%v", err)
	}
	vDrainRecords()
	if err := ds.WriteControl(&WriteControlConfig{Request: "STOP"}); err != nil {
		return fail("stop-error", "STOP: %v", err)
	}
	seen := map[string]int{}
	for i, t := range truth {
		name, num := ds.chanNames[i], ds.chanNumbers[i]
		for _, ext := range []string{"ljh", "ljh3", "off"} {
			if ext == "off" && i%2 != 0 {
				continue
			}
			fn := fmt.Sprintf(pattern, name, ext)
			if j, dup := seen[fn]; dup {
				return fail("file-shared", "streams %d and %d write to the same file %s", j, i, filepath.Base(fn))
			}
			seen[fn] = i
			b, err := os.ReadFile(fn)
			if err != nil {
				return fail("file-missing", "stream %d (%s): %v", i, name, err)
			}
			switch ext {
			case "ljh":
				f, err := vDecodeLJH22(b)
				if err != nil {
					return fail("file-malformed", "%s: %v", filepath.Base(fn), err)
				}
				ints := map[string]int{"Channel": num, "ChannelIndex (in dastard)": i, "Number of rows": t.rows, "Number of columns": t.cols,
					"Number of channels": nchan,
					fmt.Sprintf("Row number (from 0-%d inclusive)", t.rows-1):    t.row,
					fmt.Sprintf("Column number (from 0-%d inclusive)", t.cols-1): t.col}
				for k, w := range ints {
					g, err := f.intField(k)
					if err != nil {
						return fail("header-ljh", "%s: %v", filepath.Base(fn), err)
					}
					if g != w {
						return fail("header-ljh", "%s: header %q is %d, the tables say %d", filepath.Base(fn), k, g, w)
					}
				}
				if g := f.Header["Channel name"]; g != name {
					return fail("header-ljh", "%s: header channel name %q, the tables say %q", filepath.Base(fn), g, name)
				}
				if len(f.Records) == 0 {
					return fail("file-empty", "%s holds no record", filepath.Base(fn))
				}
			case "ljh3":
				f, err := vDecodeLJH3(b)
				if err != nil {
					return fail("file-malformed", "%s: %v", filepath.Base(fn), err)
				}
				if len(f.Records) == 0 {
					return fail("file-empty", "%s holds no record", filepath.Base(fn))
				}
				if r0 := f.Records[0]; len(r0.Samples) == 0 || r0.Samples[0] != uint16(100*i+int(r0.Frame)-npre) {
					return fail("file-wrong-stream", "%s: its first record (frame %d) does not hold the data of stream %d", filepath.Base(fn), r0.Frame, i)
				}
				for k, w := range map[string]int{"NumberOfRows": t.rows, "NumberOfColumns": t.cols, "Row": t.row, "Column": t.col} {
					g, err := vJSONInt(f.Header, "TDM", k)
					if err != nil {
						return fail("header-ljh3", "%s: %v", filepath.Base(fn), err)
					}
					if g != w {
						return fail("header-ljh3", "%s (stream %d, %s): header TDM.%s is %d, the tables say %d", filepath.Base(fn), i, name, k, g, w)
					}
				}
			default:
				f, err := vDecodeOFF(b)
				if err != nil {
					return fail("file-malformed", "%s: %v", filepath.Base(fn), err)
				}
				for _, x := range []struct {
					path []string
					want int
				}{{[]string{"ChannelIndex"}, i}, {[]string{"ChannelNumberMatchingName"}, num}, {[]string{"ReadoutInfo", "NumberOfRows"}, t.rows},
					{[]string{"ReadoutInfo", "NumberOfColumns"}, t.cols}, {[]string{"ReadoutInfo", "ColumnNum"}, t.col}, {[]string{"ReadoutInfo", "RowNum"}, t.row},
					{[]string{"ReadoutInfo", "NumberOfChans"}, nchan}} {
					g, err := vJSONInt(f.Header, x.path...)
					if err != nil {
						return fail("header-off", "%s: %v", filepath.Base(fn), err)
					}
					if g != x.want {
						return fail("header-off", "%s: header %v is %d, the tables say %d", filepath.Base(fn), x.path, g, x.want)
					}
				}
				if g, _ := vJSONString(f.Header, "ChannelName"); g != name {
					return fail("header-off", "%s: header ChannelName %q, the tables say %q", filepath.Base(fn), g, name)
				}
			}
		}
	}
	return nil
}

func c19LanceroTruth(devs []c19Dev) []c19Truth {
	var out []c19Truth
	for _, d := range devs {
		for col := 0; col < d.Cols; col++ {
			for row := 0; row < d.Rows; row++ {
				for k := 0; k < 2; k++ {
					out = append(out, c19Truth{err: k == 0, card: d.Devnum, col: col, row: row, rows: d.Rows, cols: d.Cols})
				}
			}
		}
	}
	return out
}

func c19Run(c c19Case) (v vVerdict) {
	c19Counter++
	work := os.Getenv("VERIF_WORK")
	if work == "" {
		work = os.TempDir()
	}
	root := filepath.Join(work, fmt.Sprintf("c19_%d_%d", os.Getpid(), c19Counter))
	defer os.RemoveAll(root)
	vDrainRecords()
	switch c.Kind {
	case "lancero":
		if len(c.Devs) < 1 || len(c.Devs) > 4 {
			return v
		}
		ls := &LanceroSource{}
		ls.name = "Lancero"
		ls.devices = map[int]*LanceroDevice{}
		prepare := func(devs []c19Dev) (error, []c19Truth) {
			ls.active = nil
			ls.nchan = 0
			seen := map[int]bool{}
			for _, d := range devs {
				if d.Cols < 1 || d.Rows < 1 || d.Cols > 32 || d.Rows > 256 || d.Devnum < 0 || seen[d.Devnum] {
					return fmt.Errorf("harness: invalid device"), nil
				}
				seen[d.Devnum] = true
				dev := ls.devices[d.Devnum]
				if dev == nil {
					dev = &LanceroDevice{devnum: d.Devnum}
					ls.devices[d.Devnum] = dev
				}
				dev.ncols, dev.nrows = d.Cols, d.Rows
				ls.active = append(ls.active, dev)
				ls.nchan += 2 * d.Cols * d.Rows
			}
			// what Configure does with the separations
			ls.firstRowChanNum, ls.chanSepCards, ls.chanSepColumns = c.FirstRow, c.SepCards, c.SepCols
			return ls.PrepareChannels(), c19LanceroTruth(devs)
		}
		if len(c.ActiveList) > 0 {
			// through the real Configure: a card named twice must be refused there - or at the latest not lead to colliding streams
			rows := c.Devs[0].Rows
			byNum := map[int]c19Dev{}
			for _, d := range c.Devs {
				if d.Rows != rows || d.Cols < 1 || d.Cols > 32 || rows < 1 || rows > 256 || d.Devnum < 0 {
					return v // Configure gives every card the sequence length of the globals file
				}
				byNum[d.Devnum] = d
				ls.devices[d.Devnum] = &LanceroDevice{devnum: d.Devnum}
			}
			dup := false
			seen := map[int]bool{}
			for _, n := range c.ActiveList {
				if _, ok := byNum[n]; !ok {
					return v
				}
				if seen[n] {
					dup = true
				}
				seen[n] = true
			}
			cg := filepath.Join(root, "cringeGlobals.json")
			os.MkdirAll(root, 0o755)
			os.WriteFile(cg, []byte(fmt.Sprintf(`{"SETT":1,"seqln":%d,"lsync":20000,"testpattern":0,"propagationdelay":0,"NSAMP":4,"carddelay":0,"XPT":0}`, rows)), 0o644)
			oldPath := cringeGlobalsPath
			cringeGlobalsPath = cg
			cerr := ls.Configure(&LanceroSourceConfig{FiberMask: 0xffff, ActiveCards: append([]int(nil), c.ActiveList...), FirstRow: c.FirstRow, ChanSepCards: c.SepCards, ChanSepColumns: c.SepCols})
			cringeGlobalsPath = oldPath
			if cerr != nil {
				if !dup {
					return vFailf("configure-rejected", "Configure refused the card list %v (no card named twice): %v", c.ActiveList, cerr)
				}
				v.Classes = append(v.Classes, "duplicate-card-refused")
				return v
			}
			var devs []c19Dev
			ls.nchan = 0
			for _, dev := range ls.active {
				d := byNum[dev.devnum]
				dev.ncols, dev.nrows = d.Cols, d.Rows
				ls.nchan += 2 * d.Cols * d.Rows
				devs = append(devs, d)
			}
			perr := ls.PrepareChannels()
			if perr != nil {
				v.Classes = append(v.Classes, "rejected")
				return v
			}
			if dup {
				v.Classes = append(v.Classes, "duplicate-card-accepted")
			}
			if f := c19CheckTables(&ls.AnySource, c19LanceroTruth(devs), true); f != nil {
				f.Msg = fmt.Sprintf("card list %v accepted by Configure: %s", c.ActiveList, f.Msg)
				return *f
			}
			v.Classes = append(v.Classes, "through-configure")
			return v
		}
		err, truth := prepare(c.Devs)
		if truth == nil {
			return v
		}
		if c.Twice && err == nil && len(c.Devs2) > 0 {
			// the same source object is configured and started again with another geometry
			err, truth = prepare(c.Devs2)
			if truth == nil {
				return v
			}
			v.Classes = append(v.Classes, "reprepared")
		}
		if err != nil {
			if c.SepCards == 0 && c.SepCols == 0 {
				return vFailf("sequential-rejected", "sequential numbering (both separations 0) was rejected: %v", err)
			}
			v.Classes = append(v.Classes, "rejected")
			return v
		}
		if f := c19CheckTables(&ls.AnySource, truth, true); f != nil {
			return *f
		}
		if c.Write && ls.nchan <= 48 {
			ls.sampleRate, ls.samplePeriod = 1e6, time.Microsecond
			if f := c19WriteCycle(&ls.AnySource, root, truth); f != nil {
				return *f
			}
			v.Classes = append(v.Classes, "written")
		}
		multiCol := false
		for _, d := range c.Devs {
			if d.Cols >= 2 {
				multiCol = true
			}
		}
		v.NonTrivial = multiCol && (c.SepCols != 0 || c.SepCards != 0)
		if len(c.Devs) > 1 {
			v.Classes = append(v.Classes, "multi-card")
		}
	case "abaco":
		if len(c.Groups) < 1 || len(c.Groups) > 6 {
			return v
		}
		cc := c03Case{F: 2, NSample: 3, NProducers: 1, Seed: 1}
		distinct := map[c19Group]bool{}
		for _, g := range c.Groups {
			if g.Nchan < 1 || g.Nchan > 64 || g.First < 0 || g.First > 100000 {
				return v
			}
			cc.Groups = append(cc.Groups, c03Group{First: g.First, Nchan: g.Nchan, Base: 10})
			distinct[g] = true
		}
		pr := &c03Producer{}
		for gi := range cc.Groups {
			for a := 0; a < cc.NSample; a++ {
				p, err := c03MakePacket(&cc, gi, a)
				if err != nil {
					return vFailf("harness", "%v", err)
				}
				pr.sample = append(pr.sample, p)
			}
		}
		as, err := NewAbacoSource()
		if err != nil {
			return vFailf("harness", "%v", err)
		}
		as.producers = []PacketProducer{pr}
		if c.Twice {
			// an earlier run of the same source object that ended by itself (time-out, error block): nobody called Stop, the
			// client just configures and starts again - the identity tables must describe the new run only
			if as.Sample() == nil {
				as.PrepareChannels()
				v.Classes = append(v.Classes, "reprepared")
			}
			as.producers = []PacketProducer{&c03Producer{sample: pr.sample}}
		}
		err = as.Sample()
		// do two different groups share a channel number?
		overlap := false
		var gs []c19Group
		for g := range distinct {
			gs = append(gs, g)
		}
		sort.Slice(gs, func(i, j int) bool { return gs[i].First < gs[j].First || (gs[i].First == gs[j].First && gs[i].Nchan < gs[j].Nchan) })
		for i := range gs {
			for j := i + 1; j < len(gs); j++ {
				if gs[i].First < gs[j].First+gs[j].Nchan && gs[j].First < gs[i].First+gs[i].Nchan {
					overlap = true
				}
			}
		}
		if err != nil {
			if !overlap {
				return vFailf("layout-rejected", "group layout %v without any shared channel number was rejected: %v", c.Groups, err)
			}
			v.Classes = append(v.Classes, "rejected")
			return v
		}
		if overlap {
			return vFailf("overlap-accepted", "group layout %v (two groups share a channel number) was accepted by Sample()", c.Groups)
		}
		if err := as.PrepareChannels(); err != nil {
			return vFailf("prepare", "%v", err)
		}
		var truth []c19Truth
		for col, g := range gs {
			for row := 0; row < g.Nchan; row++ {
				truth = append(truth, c19Truth{col: col, row: row, rows: g.Nchan, cols: len(gs), number: g.First + row, numberKnown: true})
			}
		}
		if as.nchan != len(truth) {
			return vFailf("nchan", "source reports %d channels, the groups hold %d", as.nchan, len(truth))
		}
		if f := c19CheckTables(&as.AnySource, truth, false); f != nil {
			return *f
		}
		if c.Write && as.nchan <= 48 {
			if f := c19WriteCycle(&as.AnySource, root, truth); f != nil {
				return *f
			}
			v.Classes = append(v.Classes, "written")
		}
		v.NonTrivial = len(gs) >= 2
	case "roach":
		if c.Nchan < 1 || c.Nchan > 4096 {
			return v
		}
		rs := &RoachSource{}
		rs.nchan = c.Nchan
		if err := rs.PrepareChannels(); err != nil {
			return vFailf("prepare", "%v", err)
		}
		var truth []c19Truth
		for i := 0; i < c.Nchan; i++ {
			truth = append(truth, c19Truth{row: i, rows: c.Nchan, cols: 1, number: i, numberKnown: true})
		}
		if f := c19CheckTables(&rs.AnySource, truth, false); f != nil {
			return *f
		}
	}
	return v
}

func c19GenDevs(t *rapid.T, label string) []c19Dev {
	n := rapid.SampledFrom([]int{1, 1, 2, 2, 3}).Draw(t, label+"ncards")
	nums := rapid.Permutation([]int{0, 1, 2, 3, 4, 5}).Draw(t, label+"devnums")[:n]
	if rapid.Bool().Draw(t, label+"sorted") {
		sort.Ints(nums)
	}
	rows := rapid.SampledFrom([]int{1, 2, 3, 4, 8, 16, 30, 40}).Draw(t, label+"rows")
	var devs []c19Dev
	for i := 0; i < n; i++ {
		d := c19Dev{Devnum: nums[i], Cols: rapid.IntRange(1, 8).Draw(t, label+"cols"), Rows: rows}
		if rapid.IntRange(0, 5).Draw(t, label+"unequalrows") == 0 {
			d.Rows = rapid.IntRange(1, 40).Draw(t, label+"rows2")
		}
		devs = append(devs, d)
	}
	return devs
}

func c19Gen(t *rapid.T) c19Case {
	var c c19Case
	switch k := rapid.IntRange(0, 9).Draw(t, "kind"); {
	case k < 6:
		c.Kind = "lancero"
		c.Devs = c19GenDevs(t, "a")
		c.FirstRow = rapid.SampledFrom([]int{1, 1, 0, -2, 7, 1000}).Draw(t, "firstrow")
		maxRows, maxNeed := 0, 0
		for _, d := range c.Devs {
			if d.Rows > maxRows {
				maxRows = d.Rows
			}
		}
		switch rapid.IntRange(0, 5).Draw(t, "sepcols") {
		case 0, 1:
			c.SepCols = 0
		case 2:
			c.SepCols = maxRows // exactly sufficient
		case 3:
			c.SepCols = maxRows - 1 // one too small (or 0)
		case 4:
			c.SepCols = maxRows + rapid.IntRange(1, 40).Draw(t, "sepcolsextra")
		default:
			c.SepCols = rapid.IntRange(-3, 64).Draw(t, "sepcolsany")
		}
		for _, d := range c.Devs {
			colsep := d.Rows
			if c.SepCols > 0 {
				colsep = c.SepCols
			}
			if colsep*d.Cols > maxNeed {
				maxNeed = colsep * d.Cols
			}
		}
		switch rapid.IntRange(0, 5).Draw(t, "sepcards") {
		case 0, 1:
			c.SepCards = 0
		case 2:
			c.SepCards = maxNeed
		case 3:
			c.SepCards = maxNeed - 1
		case 4:
			c.SepCards = maxNeed + rapid.IntRange(1, 1000).Draw(t, "sepcardsextra")
		default:
			c.SepCards = rapid.IntRange(-3, 400).Draw(t, "sepcardsany")
		}
		if rapid.IntRange(0, 3).Draw(t, "twice") == 0 {
			c.Twice = true
			c.Devs2 = c19GenDevs(t, "b")
		}
		sameRows := true
		for _, d := range c.Devs {
			if d.Rows != c.Devs[0].Rows {
				sameRows = false
			}
		}
		if sameRows && rapid.IntRange(0, 3).Draw(t, "viaconfigure") == 0 {
			for _, d := range c.Devs {
				c.ActiveList = append(c.ActiveList, d.Devnum)
			}
			c.ActiveList = rapid.Permutation(c.ActiveList).Draw(t, "cardorder")
			if rapid.IntRange(0, 1).Draw(t, "dupcard") == 0 {
				d := rapid.SampledFrom(c.ActiveList).Draw(t, "dupwhich")
				at := rapid.IntRange(0, len(c.ActiveList)).Draw(t, "dupat")
				c.ActiveList = append(c.ActiveList[:at], append([]int{d}, c.ActiveList[at:]...)...)
			}
		}
		c.Write = rapid.IntRange(0, 2).Draw(t, "write") == 0
	case k < 9:
		c.Kind = "abaco"
		n := rapid.IntRange(1, 5).Draw(t, "ngroups")
		next := rapid.SampledFrom([]int{0, 1, 100}).Draw(t, "first")
		for i := 0; i < n; i++ {
			g := c19Group{Nchan: rapid.IntRange(1, 12).Draw(t, "nchan")}
			switch rapid.IntRange(0, 7).Draw(t, "place") {
			case 0: // overlaps the previous group's last channel
				g.First = maxInt(next-1, 0)
			case 1: // overlaps more
				g.First = maxInt(next-rapid.IntRange(1, 6).Draw(t, "back"), 0)
			case 2: // gap
				g.First = next + rapid.IntRange(1, 50).Draw(t, "gap")
			case 3: // same first channel as an earlier group
				if len(c.Groups) > 0 {
					g.First = c.Groups[rapid.IntRange(0, len(c.Groups)-1).Draw(t, "dup")].First
				} else {
					g.First = next
				}
			default: // adjacent
				g.First = next
			}
			if g.First+g.Nchan > next {
				next = g.First + g.Nchan
			}
			c.Groups = append(c.Groups, g)
		}
		c.Groups = rapid.Permutation(c.Groups).Draw(t, "order")
		c.Twice = rapid.IntRange(0, 2).Draw(t, "abacotwice") == 0
		c.Write = rapid.IntRange(0, 2).Draw(t, "write") == 0
	default:
		c.Kind = "roach"
		c.Nchan = rapid.IntRange(1, 600).Draw(t, "nchan")
	}
	return c
}

func TestVerif_C19(t *testing.T) { vCheck(t, "C19", c19Gen, c19Run) }
