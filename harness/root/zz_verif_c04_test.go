//go:build verif

package dastard

// C04: Lancero ingest - frame alignment, channel order, err/fb pairing, external triggers, gaps.
// A scripted in-memory card (implements lancero.Lanceroer with true ring semantics; the harness owns
// how the byte stream is chopped into driver reads, when mix requests are served and where bytes are
// lost) feeds the real Sample() -> PrepareChannels() -> PrepareRun() -> StartRun() -> getNextBlock().
// Oracle: a reference demultiplexer / mixer / external-trigger scanner written from the statement.

import (
	"encoding/json"
	"fmt"
	"math"
	"os"
	"path/filepath"
	"runtime"
	"strconv"
	"strings"
	"sync"
	"testing"
	"time"

	"github.com/spf13/viper"
	"pgregory.net/rapid"
)

type c04Mix struct {
	AfterChunk int       `json:"after_chunk"` // the mix request is served once this many run-phase chunks were delivered and consumed
	Chans      []int     `json:"chans"`       // feedback channel indices (odd)
	Fractions  []float64 `json:"fractions"`
	// Reconf: before this mix request a client sends ConfigureLanceroSource while Cringe's globals file announces this other
	// NSAMP; the source is running, so the request must be refused and change nothing (0: no such request)
	Reconf int `json:"reconf_nsamp,omitempty"`
}

type c04Gap struct {
	PosWords int `json:"pos_words"` // word index (relative to the start of the delivered stream) where bytes are lost
	LenWords int `json:"len_words"`
}

type c04Case struct {
	Cols     int      `json:"cols"`
	Rows     int      `json:"rows"`
	Nsamp    int      `json:"nsamp"`  // cringe NSAMP (1..16): mix fractions are divided by it
	NFrames  int      `json:"frames"` // frames generated for the run phase
	StartOff int      `json:"start_off_words"`
	Seed     int      `json:"seed"`
	Chunks   []int    `json:"chunks"` // bytes added to the card ring per AvailableBuffer call of the run phase
	ExtOn    [][2]int `json:"ext_on"` // external-trigger input high during row-times [a,b) (row-time = frame*rows+row)
	Mix      []c04Mix `json:"mix,omitempty"`
	Gap      *c04Gap  `json:"gap,omitempty"`
	// Prior: an earlier, complete run on the same source object (other geometry, often the same number of channels),
	// judged like any run; the main run follows after a new Configure.
	Prior *c04Case `json:"prior,omitempty"`
	// LagMs (C17 workloads only): the consumer dawdles so long after each of the first blocks - block assembly falls behind the reader
	LagMs int `json:"lag_ms,omitempty"`
	// Card: the device number of the (one) active card; IdleCard0: with Card > 0, a card number 0 is installed too but not activated
	// RelErrAt: the ReleaseBytes call of this number (in the run phase) releases the bytes and reports a driver error all the same
	RelErrAt  int  `json:"release_error_at,omitempty"`
	Card      int  `json:"card,omitempty"`
	IdleCard0 bool `json:"idle_card0,omitempty"`
}

func (c *c04Case) valid() bool {
	if c.Cols < 1 || c.Cols > 16 || c.Rows < 2 || c.Rows > 64 || c.Nsamp < 1 || c.Nsamp > 16 || c.NFrames < 6 || c.NFrames > 4000 ||
		c.StartOff < 0 || c.StartOff >= c.Cols*c.Rows || len(c.Chunks) == 0 || len(c.Chunks) > 400 {
		return false
	}
	fs := c.Cols * c.Rows * 4
	sum := 0
	for i, ch := range c.Chunks {
		if ch < 0 || ch > 64*fs {
			return false
		}
		sum += ch
		if i == 59 && sum < 4*fs {
			return false // StartRun gives up after 100 reads without two frame starts
		}
	}
	for _, m := range c.Mix {
		if len(m.Chans) != len(m.Fractions) || m.AfterChunk < 0 {
			return false
		}
		for i, ch := range m.Chans {
			if ch < 0 || ch >= 2*c.Cols*c.Rows || ch%2 == 0 || math.IsNaN(m.Fractions[i]) || math.IsInf(m.Fractions[i], 0) {
				return false
			}
		}
	}
	if c.Gap != nil && (len(c.Mix) > 0 || c.Gap.PosWords < 0 || c.Gap.LenWords < 1) {
		return false
	}
	return true
}

func (c *c04Case) extFlag(frame, row int) bool {
	t := frame*c.Rows + row
	for _, iv := range c.ExtOn {
		if t >= iv[0] && t < iv[1] {
			return true
		}
	}
	return false
}

// word returns (err, fb) of physical (frame,row,col) as the card sends it.
func (c *c04Case) word(frame, row, col int) (uint16, uint16) {
	h := uint32(vNoise(c.Seed+frame*131+row*7+col*3, frame*c.Rows*c.Cols+row*c.Cols+col))
	h = h*2654435761 + uint32(frame)
	e := uint16(h >> 16)
	fb := uint16(h) &^ 3
	switch (c.Seed + col) % 4 {
	case 0: // small signed errors around zero, fb mid-range
		e = uint16(int16(int(h>>16)%41 - 20))
	case 1: // extremes
		if h&0x10 != 0 {
			e = 0x7fff
		} else {
			e = 0x8000
		}
		if h&0x20 != 0 {
			fb = 0xfffc
		} else {
			fb = 0
		}
	}
	if row == 0 {
		fb |= 1
	}
	if c.extFlag(frame, row) {
		fb |= 2
	}
	return e, fb
}

// ---------------------------------------------------------------------------------------------------
// the scripted card

type c04Card struct {
	mu        sync.Mutex
	c         *c04Case
	frameSize int
	period    time.Duration
	t0        time.Time
	collStart int // number of StartCollector calls: 1 = sampling phase, 2 = run phase
	// sampling phase
	sampleFrame int
	// run phase
	stream   []byte
	gapAt    int // byte index in stream after which gapLen bytes were lost (-1: none)
	gapLen   int
	next     int // chunk index
	avail    int
	rd       int
	holds    map[int]bool // close the gate once this many chunks are delivered
	armed    bool         // holds are honoured only once the reader loop runs (StartRun must not be starved)
	held     bool
	idleCall int // consecutive AvailableBuffer calls that added nothing and found < 3 frames
	extra    int
	done     chan struct{}
	doneSet  bool
	idle     chan struct{} // signalled (non-blocking) whenever the card is held and the reader found too little
	released int          // bytes released in the run phase
	relCalls int          // ReleaseBytes calls of the run phase
	relAtLaunch int
	alignGID    int64 // goroutine that calls StartRun
	alignRel    int   // bytes released by that goroutine in the run phase
	errMsg   string
}

func (k *c04Card) ChangeRingBuffer(int, int) error              { return nil }
func (k *c04Card) Close() error                                   { return nil }
func (k *c04Card) StartAdapter(int, int) error                    { return nil }
func (k *c04Card) StopAdapter() error                             { return nil }
func (k *c04Card) CollectorConfigure(int, int, uint32, int) error { return nil }
func (k *c04Card) StopCollector() error                           { return nil }
func (k *c04Card) InspectAdapter() uint32                         { return 0 }
func (k *c04Card) Wait() (time.Time, time.Duration, error)        { return time.Now(), 0, nil }
func (k *c04Card) StartCollector(bool) error {
	k.mu.Lock()
	k.collStart++
	k.mu.Unlock()
	return nil
}

func (k *c04Card) frameBytes(frame int, zero bool) []byte {
	c := k.c
	b := make([]byte, 0, k.frameSize)
	for r := 0; r < c.Rows; r++ {
		for col := 0; col < c.Cols; col++ {
			var e, fb uint16
			if zero {
				if r == 0 {
					fb = 1
				}
			} else {
				e, fb = c.word(frame, r, col)
			}
			b = append(b, byte(e), byte(e>>8), byte(fb), byte(fb>>8))
		}
	}
	return b
}

// truePos maps a byte index of the delivered stream to its position in the stream the card produced.
func (k *c04Card) truePos(i int) int {
	if k.gapAt >= 0 && i > k.gapAt {
		return i + k.gapLen
	}
	return i
}

func (k *c04Card) AvailableBuffer() ([]byte, time.Time, error) {
	k.mu.Lock()
	defer k.mu.Unlock()
	if k.collStart <= 1 {
		// sampling phase: 32 well-formed frames per call, starting mid-frame on the first call
		var b []byte
		for i := 0; i < 32; i++ {
			b = append(b, k.frameBytes(0, true)...)
		}
		if k.sampleFrame == 0 {
			b = b[4*k.c.StartOff:]
		}
		k.sampleFrame += 32
		return b, k.t0.Add(-time.Hour).Add(time.Duration(k.sampleFrame) * k.period), nil
	}
	added := false
	if !k.held && k.next < len(k.c.Chunks) {
		k.avail += k.c.Chunks[k.next]
		if k.avail > len(k.stream) {
			k.avail = len(k.stream)
		}
		k.next++
		added = true
		if k.armed && k.holds[k.next] {
			k.held = true
		}
	}
	if !added && k.avail-k.rd < 3*k.frameSize {
		k.idleCall++
		if k.held && k.idleCall >= 2 {
			select {
			case k.idle <- struct{}{}:
			default:
			}
		}
		if !k.held && k.next >= len(k.c.Chunks) {
			k.extra++
			if k.extra >= 3 && !k.doneSet {
				k.doneSet = true
				close(k.done)
			}
		}
	} else {
		k.idleCall = 0
	}
	if os.Getenv("VERIF_DEBUG") != "" {
		fmt.Printf("card: AvailableBuffer next=%d avail=%d rd=%d held=%v armed=%v\n", k.next, k.avail, k.rd, k.held, k.armed)
	}
	tp := k.truePos(k.avail)
	ts := k.t0.Add(time.Duration(float64(tp) / float64(k.frameSize) * float64(k.period)))
	return k.stream[k.rd:k.avail], ts, nil
}

func (k *c04Card) ReleaseBytes(n int) error {
	k.mu.Lock()
	defer k.mu.Unlock()
	if k.collStart <= 1 {
		return nil
	}
	if n < 0 || k.rd+n > k.avail {
		k.errMsg = fmt.Sprintf("ReleaseBytes(%d) with only %d bytes outstanding", n, k.avail-k.rd)
		n = k.avail - k.rd
	}
	if os.Getenv("VERIF_DEBUG") != "" {
		fmt.Printf("card: ReleaseBytes(%d) rd=%d\n", n, k.rd)
	}
	k.rd += n
	k.released += n
	if k.alignGID != 0 && c04GoroutineID() == k.alignGID {
		k.alignRel += n // released by StartRun itself (frame alignment), not by the reader it launches
	}
	k.relCalls++
	if k.c.RelErrAt > 0 && k.relCalls == k.c.RelErrAt {
		// the driver moves its read index first and then reports a problem (as the real adapter does): the bytes are released
		return fmt.Errorf("scripted card: the driver reports an error after releasing %d bytes", n)
	}
	return nil
}

// arm is called once StartRun has returned: from now on hold points stop the delivery of chunks.
func (k *c04Card) arm() int {
	k.mu.Lock()
	defer k.mu.Unlock()
	k.armed = true
	for h := range k.holds {
		if h <= k.next {
			k.held = true
		}
	}
	// what StartRun's alignment released. (Not "everything released so far": on a busy machine the reader that StartRun
	// launches may already have taken and released its first read before this is called.)
	return k.alignRel
}

// c04GoroutineID returns the number of the calling goroutine.
func c04GoroutineID() int64 {
	var buf [64]byte
	n := runtime.Stack(buf[:], false)
	f := strings.Fields(string(buf[:n]))
	if len(f) < 2 {
		return -1
	}
	id, _ := strconv.ParseInt(f[1], 10, 64)
	return id
}

func (k *c04Card) nextIdx() int {
	k.mu.Lock()
	defer k.mu.Unlock()
	return k.next
}

func (k *c04Card) release() {
	k.mu.Lock()
	k.held = false
	k.idleCall = 0
	k.mu.Unlock()
}

// ---------------------------------------------------------------------------------------------------

var c04Counter int

func c04Run(c c04Case) (v vVerdict) {
	if !c.valid() || (c.Prior != nil && (!c.Prior.valid() || c.Prior.Prior != nil)) {
		return v
	}
	ls, err := NewLanceroSource()
	if err != nil {
		return vFailf("harness", "NewLanceroSource: %v", err)
	}
	if c.Prior != nil {
		pv := c04RunOn(ls, *c.Prior)
		if pv.Fail || pv.Inconclusive != "" {
			return pv
		}
		v = c04RunOn(ls, c)
		if v.Fail {
			v.Msg = fmt.Sprintf("second run on the same source (first run: %d cols x %d rows): %s", c.Prior.Cols, c.Prior.Rows, v.Msg)
		}
		v.Classes = append(v.Classes, "second-run-other-geometry")
		if c.Prior.Cols*c.Prior.Rows == c.Cols*c.Rows {
			v.Classes = append(v.Classes, "second-run-same-channel-count")
		}
		return v
	}
	return c04RunOn(ls, c)
}

func c04RunOn(ls *LanceroSource, c c04Case) (v vVerdict) {
	W := c.Cols * c.Rows
	fs := 4 * W
	c04Counter++
	work := os.Getenv("VERIF_WORK")
	if work == "" {
		work = os.TempDir()
	}
	// cringe globals as Cringe writes them
	const lsync = 20000
	cg := filepath.Join(work, fmt.Sprintf("cringeGlobals_%d.json", os.Getpid()))
	cgb, _ := json.Marshal(map[string]int{"SETT": 1, "seqln": c.Rows, "lsync": lsync, "testpattern": 0, "propagationdelay": 0, "NSAMP": c.Nsamp, "carddelay": 0, "XPT": 0})
	if err := os.WriteFile(cg, cgb, 0o644); err != nil {
		return vFailf("harness", "%v", err)
	}
	defer os.Remove(cg)
	oldPath := cringeGlobalsPath
	cringeGlobalsPath = cg
	defer func() { cringeGlobalsPath = oldPath }()

	card := &c04Card{c: &c, frameSize: fs, t0: vPipeT0, gapAt: -1, holds: map[int]bool{}, done: make(chan struct{}), idle: make(chan struct{}, 1)}
	card.period = time.Duration(lsync * c.Rows * 8) // 125 MHz line clock: lsync*rows ticks of 8 ns per frame
	// the run-phase byte stream
	var full []byte
	for f := 0; f < c.NFrames; f++ {
		full = append(full, card.frameBytes(f, false)...)
	}
	full = full[4*c.StartOff:]
	gapStartTrue, gapEndTrue := -1, -1 // byte positions in the produced stream (relative to frame 0) of the lost region
	if c.Gap != nil {
		p, l := 4*c.Gap.PosWords, 4*c.Gap.LenWords
		if p+l >= len(full)-4*fs || p < 4*fs {
			return v // the gap must leave room before and after
		}
		gapStartTrue, gapEndTrue = p+4*c.StartOff, p+l+4*c.StartOff
		card.gapAt, card.gapLen = p, l
		full = append(append([]byte(nil), full[:p]...), full[p+l:]...)
	}
	if c.Gap != nil {
		// with lost bytes the driver's reads are multiples of the 4-byte DMA word (the recovery path releases whole reads)
		for i := range c.Chunks {
			c.Chunks[i] &^= 3
		}
	}
	card.stream = full
	for _, m := range c.Mix {
		card.holds[m.AfterChunk] = true
	}

	if c.Card < 0 || c.Card > 7 {
		return v
	}
	ls.devices = map[int]*LanceroDevice{c.Card: {devnum: c.Card, card: card}}
	ls.ncards = 1
	if c.Card > 0 && c.IdleCard0 {
		ls.devices[0] = &LanceroDevice{devnum: 0, card: &vLiveCard{cols: 1, rows: 2, period: time.Millisecond, t0: vPipeT0}}
		ls.ncards = 2
	}
	cfg := &LanceroSourceConfig{FiberMask: 0xffff, ActiveCards: []int{c.Card}, CardDelay: []int{1}, FirstRow: 1}
	if err := ls.Configure(cfg); err != nil {
		return vFailf("configure-rejected", "Configure: %v", err)
	}
	vDrainRecords()
	viper.Reset()
	if err := ls.Sample(); err != nil {
		return vFailf("sample-rejected", "Sample() with %d cols x %d rows: %v", c.Cols, c.Rows, err)
	}
	if ls.nchan != 2*W || ls.devices[c.Card].ncols != c.Cols {
		return vFailf("geometry", "Sample() found %d channels / %d columns for %d cols x %d rows", ls.nchan, ls.devices[c.Card].ncols, c.Cols, c.Rows)
	}
	if err := ls.PrepareChannels(); err != nil {
		return vFailf("prepare", "PrepareChannels: %v", err)
	}
	if err := ls.PrepareRun(4, 8); err != nil {
		return vFailf("prepare", "PrepareRun: %v", err)
	}
	defer func() {
		ls.numberWrittenTicker.Stop()
		ls.writingState.externalTriggerTicker.Stop()
		ls.writingState.dataDropTicker.Stop()
	}()
	card.mu.Lock()
	card.alignGID = c04GoroutineID()
	card.mu.Unlock()
	if err := ls.StartRun(); err != nil {
		closeIfOpen(ls.abortSelf)
		return vFailf("startrun", "StartRun: %v", err)
	}
	startRel := card.arm() // bytes discarded by StartRun's alignment
	ls.sourceStateLock.Lock()
	ls.sourceState = Active // what Start() records once StartRun has succeeded
	ls.sourceStateLock.Unlock()
	defer func() {
		ls.sourceStateLock.Lock()
		ls.sourceState = Inactive
		ls.sourceStateLock.Unlock()
	}()

	// ---- play CoreLoop's part: take blocks; serve mix requests at the scripted points -------------
	type blk struct {
		b   *dataBlock
		mix int // number of mix requests served before this block
	}
	var blocks []blk
	framesGot := 0
	mixServed := 0
	mixAtFrame := []int{} // output frame index from which mix request i is in force
	refusedReconf := false
	deadline := time.After(40 * time.Second)
	ch := ls.getNextBlock()
	done := card.done
loop:
	for {
		select {
		case b, ok := <-ch:
			if !ok {
				break loop
			}
			if b.err != nil {
				return vFailf("block-error", "block %d carries error %v", len(blocks), b.err)
			}
			blocks = append(blocks, blk{b, mixServed})
			framesGot += len(b.segments[0].rawData)
			if c.LagMs > 0 && c.LagMs <= 400 && len(blocks) <= 4 {
				time.Sleep(time.Duration(c.LagMs) * time.Millisecond)
			}
			ch = ls.getNextBlock()
		case <-card.idle:
			card.mu.Lock()
			consumed := (card.released - startRel) / fs
			held := card.held
			card.mu.Unlock()
			if !held || consumed != framesGot || mixServed >= len(c.Mix) {
				continue // blocks still in flight; the card will signal again
			}
			// the reader is idle and every emitted frame has arrived: the outstanding getNextBlock goroutine can only serve the mix request
			m := c.Mix[mixServed]
			if m.Reconf >= 1 && m.Reconf <= 16 && m.Reconf != c.Nsamp {
				cgb2, _ := json.Marshal(map[string]int{"SETT": 1, "seqln": c.Rows, "lsync": lsync, "testpattern": 0, "propagationdelay": 0, "NSAMP": m.Reconf, "carddelay": 0, "XPT": 0})
				os.WriteFile(cg, cgb2, 0o644)
				rerr := ls.Configure(&LanceroSourceConfig{FiberMask: 0xffff, ActiveCards: []int{c.Card}, CardDelay: []int{1}, FirstRow: 1})
				os.WriteFile(cg, cgb, 0o644)
				if rerr == nil {
					return vFailf("configure-accepted-while-running", "ConfigureLanceroSource was accepted while the source is running")
				}
				refusedReconf = true
			}
			cur, err := ls.ConfigureMixFraction(&MixFractionObject{ChannelIndices: append([]int(nil), m.Chans...), MixFractions: append([]float64(nil), m.Fractions...)})
			if err != nil {
				return vFailf("mix-rejected", "ConfigureMixFraction(%v,%v): %v", m.Chans, m.Fractions, err)
			}
			for i, chn := range m.Chans {
				if chn < len(cur) && math.Abs(cur[chn]-m.Fractions[i]) > 1e-9*math.Max(1, math.Abs(m.Fractions[i])) {
					last := true
					for j := i + 1; j < len(m.Chans); j++ {
						if m.Chans[j] == chn {
							last = false
						}
					}
					if last {
						return vFailf("mix-reply", "ConfigureMixFraction reply says channel %d has mix %v after setting %v", chn, cur[chn], m.Fractions[i])
					}
				}
			}
			mixServed++
			mixAtFrame = append(mixAtFrame, framesGot)
			// several requests may share one hold point
			if mixServed < len(c.Mix) && c.Mix[mixServed].AfterChunk <= card.nextIdx() {
				select {
				case card.idle <- struct{}{}:
				default:
				}
				continue
			}
			card.release()
		case <-done:
			closeIfOpen(ls.abortSelf)
			done = nil
		case <-deadline:
			closeIfOpen(ls.abortSelf)
			return vVerdict{Inconclusive: "script not finished within 40 s"}
		}
	}
	if card.errMsg != "" {
		return vFailf("release-accounting", "%s", card.errMsg)
	}
	if mixServed < len(c.Mix) {
		// hold points beyond the last chunk never come up; those requests are simply not part of the case
		c.Mix = c.Mix[:mixServed]
	}

	// ---- oracle -----------------------------------------------------------------------------------
	// delivered stream begins StartOff words into frame 0; StartRun discards up to the next frame start
	// (a whole frame if already aligned), so the first emitted frame is frame 1.
	consumedFrames := (card.released - startRel) / fs
	if c.Gap == nil && framesGot != consumedFrames {
		return vFailf("frames-emitted", "%d frames were released to the driver after start-up but blocks hold %d frames", consumedFrames, framesGot)
	}
	nchan := 2 * W
	out := make([][]RawType, nchan)
	firstOfBlock := []int{}
	var ext []int64
	var prevEnd FrameIndex
	dropBlock := -1
	for bi, bb := range blocks {
		b := bb.b
		if len(b.segments) != nchan {
			return vFailf("block-channels", "block %d has %d segments, want %d", bi, len(b.segments), nchan)
		}
		n := len(b.segments[0].rawData)
		firstOfBlock = append(firstOfBlock, len(out[0]))
		for chn, s := range b.segments {
			if len(s.rawData) != n {
				return vFailf("block-unequal", "block %d: channel %d has %d samples, channel 0 has %d", bi, chn, len(s.rawData), n)
			}
			if s.firstFrameIndex != b.segments[0].firstFrameIndex {
				return vFailf("frame-numbers", "block %d: channel %d starts at frame %d, channel 0 at %d", bi, chn, s.firstFrameIndex, b.segments[0].firstFrameIndex)
			}
			if s.signed != (chn%2 == 0) {
				return vFailf("signedness", "block %d: channel %d signed=%v (error channels are signed, feedback unsigned)", bi, chn, s.signed)
			}
			out[chn] = append(out[chn], s.rawData...)
		}
		ff := b.segments[0].firstFrameIndex
		if bi > 0 {
			if ff < prevEnd {
				return vFailf("frame-numbers-backwards", "block %d starts at frame %d but block %d covered frames up to %d", bi, ff, bi-1, prevEnd-1)
			}
			if b.segments[0].droppedFrames == 0 && ff != prevEnd {
				return vFailf("frame-numbers", "block %d reports no dropped frames, yet it starts at frame %d and block %d ended at %d", bi, ff, bi-1, prevEnd-1)
			}
		}
		prevEnd = ff + FrameIndex(n)
		if b.segments[0].droppedFrames > 0 && dropBlock < 0 {
			dropBlock = bi
		}
		if c.Gap == nil && bi > 0 && b.segments[0].droppedFrames != 0 { // block 0 may report the start-up re-alignment as a drop
			return vFailf("false-drop", "no bytes were lost, yet block %d reports %d dropped frames", bi, b.segments[0].droppedFrames)
		}
		// external triggers are reported as absolute frame*rows+row; convert to output-relative using this block's numbering
		for _, rc := range b.externalTriggerRowcounts {
			rel := rc - int64(ff)*int64(c.Rows) + int64(firstOfBlock[bi])*int64(c.Rows)
			// a count is frame*rows+row of a row inside this very block, in the block's own frame numbering
			if rc < int64(ff)*int64(c.Rows) || rc >= (int64(ff)+int64(n))*int64(c.Rows) {
				return vFailf("external-trigger-outside-block", "block %d covers frames %d..%d (%d rows), yet it reports external-trigger count %d = frame %d row %d",
					bi, ff, int64(ff)+int64(n)-1, c.Rows, rc, rc/int64(c.Rows), rc%int64(c.Rows))
			}
			ext = append(ext, rel)
		}
	}
	chanOf := func(r, col, fb int) int { return 2*(col*c.Rows+r) + fb }
	// mix in force for output frame j on feedback channel chn
	scaleAt := func(chn, j int) float64 {
		s := 0.0
		for i, m := range c.Mix {
			if mixAtFrame[i] <= j {
				for q, cc := range m.Chans {
					if cc == chn {
						s = m.Fractions[q] / float64(c.Nsamp)
					}
				}
			}
		}
		return s
	}
	checkFrames := func(outFrom, outTo, inFrom int, skipFirstFb bool) *vVerdict {
		for j := outFrom; j < outTo; j++ {
			f := inFrom + (j - outFrom)
			for r := 0; r < c.Rows; r++ {
				for col := 0; col < c.Cols; col++ {
					e, _ := c.word(f, r, col)
					if got := out[chanOf(r, col, 0)][j]; got != RawType(e) {
						fl := vFailf("error-sample", "output frame %d, row %d col %d (channel index %d): error sample is %d, the card sent %d in frame %d",
							j, r, col, chanOf(r, col, 0), got, e, f)
						return &fl
					}
					if j == outFrom && (skipFirstFb || j == 0) {
						continue // nothing precedes the first sample (or the predecessor was lost)
					}
					_, pfb := c.word(f-1, r, col)
					chn := chanOf(r, col, 1)
					s := scaleAt(chn, j)
					want := float64(pfb &^ 3)
					if s != 0 {
						want += s * float64(int16(e))
					}
					if want > 65535 {
						want = 65535
					}
					if want < 0 {
						want = 0
					}
					got := float64(out[chn][j])
					tol := 0.0
					if s != 0 {
						tol = 0.5 + 1e-6 + math.Abs(want)*1e-12
					}
					if math.Abs(got-want) > tol {
						sig := "feedback-sample"
						if s != 0 {
							sig = "mixed-sample"
						}
						fl := vFailf(sig, "output frame %d, row %d col %d (channel index %d): feedback sample is %v; previous frame's feedback %d with flag bits cleared plus %v x error %d = %v",
							j, r, col, chn, got, pfb, s, int16(e), want)
						return &fl
					}
				}
			}
		}
		return nil
	}
	total := len(out[0])
	// firstFrameOf finds the input frame (>= minFrame) whose error words equal output frame `from`, such that
	// output frames [from,total) are that frame and its successors, whole and in order.
	firstFrameOf := func(from, minFrame int, skipFirstFb bool) (int, *vVerdict) {
		var firstFail *vVerdict
		for f := minFrame; f+(total-from) <= c.NFrames; f++ {
			ok := true
			for r := 0; r < c.Rows && ok; r++ {
				for col := 0; col < c.Cols && ok; col++ {
					e, _ := c.word(f, r, col)
					ok = out[chanOf(r, col, 0)][from] == RawType(e)
				}
			}
			if !ok {
				continue
			}
			fl := checkFrames(from, total, f, skipFirstFb)
			if fl == nil {
				return f, nil
			}
			if firstFail == nil {
				firstFail = fl
			}
		}
		return -1, firstFail
	}
	if c.Gap == nil {
		// Start-up discards data up to a frame boundary (normally the whole of frame 0); from the first emitted
		// frame on, every frame must appear exactly once and in order.
		m0 := 0
		if total > 0 {
			var fl *vVerdict
			m0, fl = firstFrameOf(0, 0, true)
			if m0 < 0 {
				if fl != nil {
					return *fl
				}
				return vFailf("error-sample", "the first emitted frame is not a whole frame the card sent (cols %d rows %d, start offset %d words)", c.Cols, c.Rows, c.StartOff)
			}
			if m0 > 2 {
				return vFailf("frames-missing", "no bytes were lost, yet the first emitted frame is frame %d: frames 1..%d never appeared", m0, m0-1)
			}
		}
		// completeness: everything but a tail of fewer than 3 frames (plus the partial frame) must have been emitted
		whole := (4*c.StartOff+card.avail)/fs - m0
		if whole-total >= 3 {
			return vFailf("frames-missing", "%d whole frames were delivered from frame %d on, only %d were emitted (the reader needs 3 frames per read, so at most 2 may remain)", whole, m0, total)
		}
		// external triggers: one count per rising edge of the per-row flag sequence, in order
		extOK := false
		var wantExt []int64
		for _, init := range []bool{false, true} { // a flag already high when observation starts may or may not count as an edge
			wantExt = wantExt[:0]
			last := init
			for j := 0; j < total; j++ {
				for r := 0; r < c.Rows; r++ {
					fl := c.extFlag(j+m0, r)
					if fl && !last {
						wantExt = append(wantExt, int64(j)*int64(c.Rows)+int64(r))
					}
					last = fl
				}
			}
			if fmt.Sprint(ext) == fmt.Sprint(wantExt) {
				extOK = true
				break
			}
		}
		if !extOK {
			return vFailf("external-triggers", "external-trigger counts (relative to the first emitted frame) are %v; the flag rose at row-times %v (%d cols x %d rows)",
				c04Head(ext), c04Head(wantExt), c.Cols, c.Rows)
		}
	} else {
		// bytes were lost.  Frames wholly before the loss are exact as long as their block was read before the
		// loss entered the ring; from the block that reports the drop onwards frames are whole, in order, consecutive.
		firstBad := gapStartTrue / fs   // frame containing the first lost byte
		nextGood := (gapEndTrue + fs - 1) / fs // first frame wholly after the loss
		if gapEndTrue%fs == gapStartTrue%fs {
			// the loss is a whole number of frames: undetectable by design, the stream simply continues
			nextGood = firstBad + (gapEndTrue-gapStartTrue)/fs
		}
		// which frame came out first?  (normally frame 1; start-up may also keep frame 0 or discard one more)
		m0 := 1
		m0ok := false
		if total > 0 {
			for _, f := range []int{1, 0, 2} {
				ok := true
				for r := 0; r < c.Rows && ok; r++ {
					for col := 0; col < c.Cols && ok; col++ {
						e, _ := c.word(f, r, col)
						ok = out[chanOf(r, col, 0)][0] == RawType(e)
					}
				}
				if ok {
					m0 = f
					m0ok = true
					break
				}
			}
		}
		// blocks that ended before the frame holding the first lost byte are exact
		nGood := firstBad - m0 // output frames 0..nGood-1 are frames m0..firstBad-1
		if dropBlock == 0 && m0ok && m0 < firstBad {
			// block 0 reported the start-up re-alignment, not the loss: look for the next report
			dropBlock = -1
			for bi := 1; bi < len(blocks); bi++ {
				if blocks[bi].b.segments[0].droppedFrames > 0 {
					dropBlock = bi
					break
				}
			}
		}
		pre := 0
		for bi := range blocks {
			end := total
			if bi+1 < len(blocks) {
				end = firstOfBlock[bi+1]
			}
			if end <= nGood && (dropBlock < 0 || bi < dropBlock) {
				pre = end
			}
		}
		if f := checkFrames(0, pre, m0, false); f != nil {
			return *f
		}
		// wholeFrom reports whether output frames [from,total) are consecutive whole frames the card sent after the loss
		wholeFrom := func(from int) (int, *vVerdict) {
			var firstFail *vVerdict
			for f := nextGood; f+(total-from) <= c.NFrames; f++ {
				ok := true
				for r := 0; r < c.Rows && ok; r++ {
					for col := 0; col < c.Cols && ok; col++ {
						e, _ := c.word(f, r, col)
						ok = out[chanOf(r, col, 0)][from] == RawType(e)
					}
				}
				if !ok {
					continue
				}
				fl := checkFrames(from, total, f, true)
				if fl == nil {
					return f, nil
				}
				if firstFail == nil {
					firstFail = fl
				}
			}
			return -1, firstFail
		}
		if dropBlock < 0 {
			// nothing reported.  Legitimate only while no block made of re-aligned post-loss frames exists.
			if (gapEndTrue-gapStartTrue)%fs != 0 && len(blocks) > 1 {
				from := firstOfBlock[len(blocks)-1]
				if from >= pre && from < total {
					if f, _ := wholeFrom(from); f >= 0 {
						return vFailf("loss-not-reported", "%d bytes were lost inside frame %d; the last block consists of whole frames %d.. sent after the loss, but no block reports dropped frames",
							gapEndTrue-gapStartTrue, firstBad, f)
					}
				}
			}
		} else {
			d0 := firstOfBlock[dropBlock]
			if d0 < pre {
				return vFailf("false-drop", "block %d reports dropped frames although it ends before the first lost byte (frame %d)", dropBlock, firstBad)
			}
			if d0 < total {
				f, fl := wholeFrom(d0)
				if f < 0 {
					if fl != nil {
						return *fl
					}
					return vFailf("not-realigned", "block %d reports dropped frames but from there on the output is not a run of whole frames the card sent after the loss (frames >= %d)", dropBlock, nextGood)
				}
				// external triggers of the re-aligned part: one count per rising edge, numbered with each block's own frames
				var gotExt []int64
				for _, x := range ext {
					if x >= int64(d0)*int64(c.Rows) {
						gotExt = append(gotExt, x)
					}
				}
				okExt := false
				var wantExt []int64
				for _, init := range []bool{false, true} { // the flag state just before the re-aligned part is not known
					wantExt = wantExt[:0]
					last := init
					for j := d0; j < total; j++ {
						for r := 0; r < c.Rows; r++ {
							fl := c.extFlag(f+(j-d0), r)
							if fl && !last {
								wantExt = append(wantExt, int64(j)*int64(c.Rows)+int64(r))
							}
							last = fl
						}
					}
					if fmt.Sprint(gotExt) == fmt.Sprint(wantExt) {
						okExt = true
						break
					}
				}
				if !okExt {
					return vFailf("external-triggers-after-gap", "after the re-alignment at output frame %d the external-trigger counts (relative to the first emitted frame) are %v; the flag rose at %v",
						d0, c04Head(gotExt), c04Head(wantExt))
				}
			}
		}
	}
	unaligned := false
	pos := 0
	for _, chk := range c.Chunks {
		pos += chk
		if pos%fs != 0 {
			unaligned = true
		}
	}
	extCols := c.Cols > 1 && len(ext) > 0
	v.NonTrivial = unaligned && (extCols || len(c.Mix) > 0 || (c.Gap != nil && dropBlock >= 0))
	if unaligned {
		v.Classes = append(v.Classes, "unaligned-chunks")
	}
	if extCols {
		v.Classes = append(v.Classes, "ext-trigger-multicolumn")
	}
	if c.Card > 0 {
		v.Classes = append(v.Classes, "active-card-is-not-number-0")
	}
	if c.RelErrAt > 0 {
		v.Classes = append(v.Classes, "driver-error-at-a-release")
	}
	if len(ext) > 0 {
		v.Classes = append(v.Classes, "ext-trigger")
	}
	if refusedReconf {
		v.Classes = append(v.Classes, "refused-reconfigure-before-mix")
	}
	if len(c.Mix) > 0 {
		v.Classes = append(v.Classes, "mix-change")
	}
	if c.Gap != nil && dropBlock >= 0 {
		v.Classes = append(v.Classes, "gap-detected")
	}
	if len(blocks) > 1 {
		v.Classes = append(v.Classes, "multi-block")
	}
	return v
}

func c04Head(x []int64) []int64 {
	if len(x) > 12 {
		return x[:12]
	}
	return x
}

func c04Gen(t *rapid.T) c04Case {
	var c c04Case
	c.Cols = rapid.SampledFrom([]int{1, 1, 2, 2, 3, 4, 8}).Draw(t, "cols")
	c.Rows = rapid.SampledFrom([]int{2, 3, 4, 5, 8, 16}).Draw(t, "rows")
	c.Nsamp = rapid.SampledFrom([]int{1, 2, 4, 16}).Draw(t, "nsamp")
	c.Seed = rapid.IntRange(0, 1<<20).Draw(t, "seed")
	if rapid.IntRange(0, 4).Draw(t, "relerr") == 0 {
		c.RelErrAt = rapid.IntRange(1, 6).Draw(t, "relerrat")
	}
	if rapid.IntRange(0, 3).Draw(t, "othercard") == 0 {
		c.Card = rapid.IntRange(1, 3).Draw(t, "card")
		c.IdleCard0 = rapid.Bool().Draw(t, "idlecard0")
	}
	W := c.Cols * c.Rows
	fs := 4 * W
	c.StartOff = rapid.SampledFrom([]int{0, 0, 1, W - 1, W / 2}).Draw(t, "startoff")
	// chunk schedule
	nchunks := rapid.IntRange(3, 14).Draw(t, "nchunks")
	mode := rapid.IntRange(0, 4).Draw(t, "chunkmode")
	total := 0
	for i := 0; i < nchunks; i++ {
		var n int
		switch {
		case i == 0 && rapid.IntRange(0, 4).Draw(t, "bigfirst") != 0:
			n = fs*rapid.IntRange(4, 7).Draw(t, "first") + rapid.SampledFrom([]int{0, 1, 4, fs / 2, fs - 1}).Draw(t, "firstoff")
		case mode == 0: // frame aligned
			n = fs * rapid.IntRange(0, 6).Draw(t, "chunkframes")
		case mode == 1: // tiny
			n = rapid.IntRange(0, fs).Draw(t, "chunkbytes")
		case mode == 2: // around the 3-frame minimum
			n = 3*fs + rapid.IntRange(-fs, fs).Draw(t, "chunkbytes")
		default:
			n = rapid.IntRange(0, 6*fs).Draw(t, "chunkbytes")
		}
		c.Chunks = append(c.Chunks, n)
		total += n
	}
	c.NFrames = total/fs + 3
	if c.NFrames < 8 {
		c.NFrames = 8
		c.Chunks = append(c.Chunks, 8*fs)
	}
	// external trigger input: a few high intervals in row-time
	nint := rapid.IntRange(0, 4).Draw(t, "nextint")
	for i := 0; i < nint; i++ {
		a := rapid.IntRange(0, c.NFrames*c.Rows).Draw(t, "exta")
		l := rapid.SampledFrom([]int{1, 1, 2, c.Rows, c.Rows + 1, 3 * c.Rows}).Draw(t, "extlen")
		c.ExtOn = append(c.ExtOn, [2]int{a, a + l})
	}
	switch rapid.IntRange(0, 5).Draw(t, "extra") {
	case 0, 1: // mix changes
		nm := rapid.IntRange(1, 3).Draw(t, "nmix")
		at := 0
		for i := 0; i < nm; i++ {
			at += rapid.IntRange(0, 4).Draw(t, "mixat")
			m := c04Mix{AfterChunk: at}
			nch := rapid.IntRange(1, 3).Draw(t, "mixnch")
			for q := 0; q < nch; q++ {
				m.Chans = append(m.Chans, 2*rapid.IntRange(0, W-1).Draw(t, "mixchan")+1)
				m.Fractions = append(m.Fractions, rapid.SampledFrom([]float64{0, 0.5, 1, -1, 0.125, 3.7, -250, 1e4, 1e-3}).Draw(t, "mixfrac"))
			}
			if rapid.IntRange(0, 2).Draw(t, "reconf") == 0 {
				m.Reconf = rapid.SampledFrom([]int{1, 2, 8, 16}).Draw(t, "reconfnsamp")
			}
			c.Mix = append(c.Mix, m)
		}
	case 2, 3: // a gap, early enough that reads follow it
		for i := 0; i < 3; i++ {
			n := fs*rapid.IntRange(3, 5).Draw(t, "postgapframes") + 4*rapid.IntRange(0, W-1).Draw(t, "postgapwords")
			c.Chunks = append(c.Chunks, n)
			total += n
		}
		c.NFrames = total/fs + 3
		g := &c04Gap{PosWords: rapid.IntRange(4*W, (c.NFrames-8)*W).Draw(t, "gappos")}
		switch rapid.IntRange(0, 3).Draw(t, "gaplenclass") {
		case 0:
			g.LenWords = rapid.IntRange(1, W-1).Draw(t, "gaplen")
		case 1:
			g.LenWords = W*rapid.IntRange(1, 3).Draw(t, "gapframes") + rapid.IntRange(1, W-1).Draw(t, "gaplen")
		case 2:
			g.LenWords = W * rapid.IntRange(1, 2).Draw(t, "gapframes") // whole frames: undetectable
		default:
			g.LenWords = rapid.IntRange(1, 4*W).Draw(t, "gaplen")
		}
		c.Gap = g
	}
	if rapid.IntRange(0, 3).Draw(t, "prior") == 0 {
		// the same source object has run before, with another geometry
		p := &c04Case{Nsamp: c.Nsamp, Seed: c.Seed + 17}
		var shapes [][2]int
		for cols := 1; cols <= 8; cols++ {
			if W%cols == 0 && W/cols >= 2 && W/cols <= 16 && cols != c.Cols {
				shapes = append(shapes, [2]int{cols, W / cols})
			}
		}
		if len(shapes) > 0 && rapid.IntRange(0, 3).Draw(t, "priorsame") != 0 {
			sh := rapid.SampledFrom(shapes).Draw(t, "priorshape")
			p.Cols, p.Rows = sh[0], sh[1]
		} else {
			p.Cols = rapid.SampledFrom([]int{1, 2, 3, 4}).Draw(t, "priorcols")
			p.Rows = rapid.SampledFrom([]int{2, 3, 4, 8}).Draw(t, "priorrows")
		}
		pfs := 4 * p.Cols * p.Rows
		p.Chunks = []int{5 * pfs, 3 * pfs, 4 * pfs}
		p.NFrames = 15
		c.Prior = p
	}
	return c
}

func TestVerif_C04(t *testing.T) { vCheck(t, "C04", c04Gen, c04Run) }
