//go:build verif

package dastard

// C11 (third harness): the wire. The real RunRPCServer listens on a TCP port (once per process) and a generated client
// session is written to a connection as raw JSON text: valid requests, requests the server can read but not serve (unknown
// method or service, parameters of the wrong type or shape), requests cut into several TCP writes or glued together, and
// text that is not JSON at all. Every request with a well-formed envelope must be answered, in order, with its own id -
// or, once the client has sent something malformed, the server may instead close the connection; what it must never do is
// stay silent. Afterwards a new connection must still be served.

import (
	"encoding/json"
	"fmt"
	"net"
	"os"
	"strconv"
	"strings"
	"sync"
	"testing"
	"time"

	"pgregory.net/rapid"
)

type c11wReq struct {
	Kind  string `json:"kind"`
	Split int    `json:"split,omitempty"` // cut the text after this many per cent and send the rest 3 ms later
	Glue  bool   `json:"glue,omitempty"`  // do not wait for the answer before sending the next request
}

type c11wCase struct {
	Reqs []c11wReq `json:"reqs"`
}

var c11wValid = []string{"starterr", "sendall", "cfgtri", "start", "stop", "trig", "lengths", "comment", "emptyparams", "bigcomment"}
var c11wServable = []string{"nomethod", "noservice", "nodot", "strparam", "objparam", "fieldtype", "paramsobject", "paramsmissing", "paramsnull", "paramsnumber"}
var c11wBroken = []string{"garbage", "methodnumber", "truncated"}

func c11wGen(t *rapid.T) c11wCase {
	var c c11wCase
	if rapid.IntRange(0, 24).Draw(t, "selfend") == 0 {
		// a source ends by itself and no request arrives before the server's next heartbeat
		c.Reqs = append(c.Reqs, c11wReq{Kind: "starterr"}, c11wReq{Kind: "idle"})
	}
	n := rapid.IntRange(2, 9).Draw(t, "n")
	for i := 0; i < n; i++ {
		var r c11wReq
		switch k := rapid.IntRange(0, 9).Draw(t, "class"); {
		case k < 5:
			r.Kind = rapid.SampledFrom(c11wValid).Draw(t, "valid")
		case k < 9:
			r.Kind = rapid.SampledFrom(c11wServable).Draw(t, "servable")
		default:
			r.Kind = rapid.SampledFrom(c11wBroken).Draw(t, "broken")
		}
		if rapid.IntRange(0, 4).Draw(t, "splitq") == 0 {
			r.Split = rapid.IntRange(1, 99).Draw(t, "split")
		}
		r.Glue = rapid.IntRange(0, 5).Draw(t, "glue") == 0
		c.Reqs = append(c.Reqs, r)
	}
	return c
}

func c11wText(kind string, id int) string {
	env := func(method, params string) string {
		return fmt.Sprintf(`{"method":%q,"params":%s,"id":%d}`+"\n", method, params, id)
	}
	switch kind {
	case "sendall":
		return env("SourceControl.SendAllStatus", `["dummy"]`)
	case "cfgtri":
		return env("SourceControl.ConfigureTriangleSource", `[{"Nchan":2,"SampleRate":10000,"Max":200,"Min":100}]`)
	case "start":
		return env("SourceControl.Start", `["TRIANGLESOURCE"]`)
	case "stop":
		return env("SourceControl.Stop", `["dummy"]`)
	case "starterr": // a source that ends by itself after a few blocks
		return env("SourceControl.Start", `["ERRORINGSOURCE"]`)
	case "idle": // nothing is sent for longer than the server's heartbeat period
		return " "
	case "trig":
		return env("SourceControl.ConfigureTriggers", `[{"ChannelIndices":[0],"AutoTrigger":true,"AutoDelay":5000000}]`)
	case "lengths":
		return env("SourceControl.ConfigurePulseLengths", `[{"Nsamp":40,"Npre":10}]`)
	case "comment":
		return env("SourceControl.WriteComment", `["hello"]`)
	case "bigcomment":
		return env("SourceControl.WriteComment", `["`+strings.Repeat("long comment ", 20000)+`"]`)
	case "emptyparams":
		return env("SourceControl.SendAllStatus", `[]`)
	case "nomethod":
		return env("SourceControl.NoSuchRequest", `[1]`)
	case "noservice":
		return env("Nobody.Start", `["TRIANGLESOURCE"]`)
	case "nodot":
		return env("Start", `["TRIANGLESOURCE"]`)
	case "strparam":
		return env("SourceControl.ConfigureTriggers", `["not a trigger state"]`)
	case "objparam":
		return env("SourceControl.Start", `[{"Name":"TRIANGLESOURCE"}]`)
	case "fieldtype":
		return env("SourceControl.ConfigurePulseLengths", `[{"Nsamp":"forty","Npre":10}]`)
	case "paramsobject":
		return env("SourceControl.ConfigurePulseLengths", `{"Nsamp":40,"Npre":10}`)
	case "paramsnull":
		return env("SourceControl.SendAllStatus", `null`)
	case "paramsnumber":
		return env("SourceControl.SendAllStatus", `7`)
	case "paramsmissing":
		return fmt.Sprintf(`{"method":"SourceControl.SendAllStatus","id":%d}`+"\n", id)
	case "methodnumber":
		return fmt.Sprintf(`{"method":5,"params":["dummy"],"id":%d}`+"\n", id)
	case "truncated":
		return fmt.Sprintf(`{"method":"SourceControl.SendAllStatus","params":["dummy","id":%d}`+"\n", id)
	case "garbage":
		return "}{ this is not JSON\n"
	}
	return ""
}

func c11wIn(list []string, k string) bool {
	for _, x := range list {
		if x == k {
			return true
		}
	}
	return false
}

var c11wOnce sync.Once
var c11wPort int

func c11wServer() int {
	c11wOnce.Do(func() {
		shard, _ := strconv.Atoi(os.Getenv("VERIF_SHARD"))
		for try := 0; try < 20 && c11wPort == 0; try++ {
			cand := 1500 + (shard%64)*20 + (os.Getpid()+try)%20 // TCP, below the ephemeral range and apart from the C16 harnesses
			l, err := net.Listen("tcp", fmt.Sprintf(":%d", cand))
			if err != nil {
				continue
			}
			l.Close()
			c11wPort = cand
		}
		if c11wPort == 0 {
			return
		}
		RunRPCServer(c11wPort, false)
		for try := 0; try < 200; try++ { // the listener is opened by a goroutine
			if conn, err := net.DialTimeout("tcp", fmt.Sprintf("127.0.0.1:%d", c11wPort), time.Second); err == nil {
				conn.Close()
				return
			}
			time.Sleep(10 * time.Millisecond)
		}
		c11wPort = 0
	})
	return c11wPort
}

type c11wReply struct {
	ID     json.RawMessage `json:"id"`
	Result json.RawMessage `json:"result"`
	Error  json.RawMessage `json:"error"`
}

// c11wClient reads the answers of one connection; the channel is closed when the server closes the connection.
func c11wClient(port int) (net.Conn, chan c11wReply, error) {
	conn, err := net.DialTimeout("tcp", fmt.Sprintf("127.0.0.1:%d", port), 3*time.Second)
	if err != nil {
		return nil, nil, err
	}
	replies := make(chan c11wReply, 64)
	go func() {
		defer close(replies)
		dec := json.NewDecoder(conn)
		for {
			var r c11wReply
			if err := dec.Decode(&r); err != nil {
				return
			}
			replies <- r
		}
	}()
	return conn, replies, nil
}

func c11wRun(c c11wCase) (v vVerdict) {
	if len(c.Reqs) == 0 || len(c.Reqs) > 20 {
		return v
	}
	for _, r := range c.Reqs {
		if c11wText(r.Kind, 1) == "" || r.Split < 0 || r.Split > 99 {
			return v
		}
	}
	port := c11wServer()
	if port == 0 {
		return vVerdict{Inconclusive: "no free TCP port for the RPC server"}
	}
	conn, replies, err := c11wClient(port)
	if err != nil {
		return vVerdict{Inconclusive: "cannot connect to the RPC server: " + err.Error()}
	}
	defer conn.Close()
	const patience = 6 * time.Second
	malformedSent := false // the server may close the connection from here on
	closed := false
	validAfterMalformed := 0
	idled := false
	var pending []int // indices of requests whose answer has not been read yet
	history := func(upto int) string {
		var s []string
		for i := 0; i <= upto && i < len(c.Reqs); i++ {
			s = append(s, c.Reqs[i].Kind)
		}
		return strings.Join(s, " ")
	}
	collect := func() *vVerdict {
		for len(pending) > 0 && !closed {
			i := pending[0]
			select {
			case r, ok := <-replies:
				if !ok {
					closed = true
					if !malformedSent {
						bad := vFailf("connection-closed", "the server closed the connection while request %d (%s) was waiting for its answer, and nothing malformed had been sent: %s", i+1, c.Reqs[i].Kind, history(i))
						return &bad
					}
					continue
				}
				if strings.TrimSpace(string(r.ID)) != strconv.Itoa(i+1) {
					bad := vFailf("wrong-reply", "request %d (%s) is answered with id %s (session: %s)", i+1, c.Reqs[i].Kind, r.ID, history(i))
					return &bad
				}
				hasErr := len(r.Error) > 0 && string(r.Error) != "null"
				if c11wIn(c11wServable, c.Reqs[i].Kind) && !hasErr {
					bad := vFailf("malformed-accepted", "request %d (%s) cannot be served as sent, yet the answer carries no error: result %s", i+1, c.Reqs[i].Kind, r.Result)
					return &bad
				}
				if c.Reqs[i].Kind == "sendall" && hasErr { // the one request that is valid in every state of the server
					bad := vFailf("valid-rejected", "request %d (%s) is valid, yet the answer is the error %s (session: %s)", i+1, c.Reqs[i].Kind, r.Error, history(i))
					return &bad
				}
				pending = pending[1:]
			case <-time.After(patience):
				if vStarved(patience) {
					bad := vVerdict{Inconclusive: "harness starved while waiting for an answer"}
					return &bad
				}
				bad := vFailf("no-reply", "request %d (%s) got no answer within %v and the connection was not closed; session so far: %s", i+1, c.Reqs[i].Kind, patience, history(i))
				return &bad
			}
		}
		return nil
	}
	for i, r := range c.Reqs {
		if closed {
			break
		}
		if r.Kind == "idle" {
			time.Sleep(2300 * time.Millisecond)
			idled = true
			continue
		}
		text := c11wText(r.Kind, i+1)
		cut := 0
		if r.Split > 0 {
			cut = len(text) * r.Split / 100
		}
		conn.SetWriteDeadline(time.Now().Add(patience))
		var werr error
		if cut > 0 && cut < len(text) {
			if _, werr = conn.Write([]byte(text[:cut])); werr == nil {
				time.Sleep(3 * time.Millisecond)
				_, werr = conn.Write([]byte(text[cut:]))
			}
		} else {
			_, werr = conn.Write([]byte(text))
		}
		if werr != nil {
			if !malformedSent {
				return vFailf("connection-closed", "writing request %d (%s) failed (%v) and nothing malformed had been sent: %s", i+1, r.Kind, werr, history(i))
			}
			closed = true
			break
		}
		if c11wIn(c11wBroken, r.Kind) {
			malformedSent = true // no answer is owed to text that is not a request
		} else {
			if malformedSent {
				validAfterMalformed++
			}
			pending = append(pending, i)
			if c11wIn(c11wServable, r.Kind) {
				malformedSent = true
			}
		}
		if !r.Glue || i == len(c.Reqs)-1 {
			if bad := collect(); bad != nil {
				return *bad
			}
		}
	}
	if bad := collect(); bad != nil {
		return *bad
	}
	conn.Close()
	// a new client must be served, and the source is stopped for the next case
	conn2, replies2, err := c11wClient(port)
	if err != nil {
		return vFailf("server-gone", "no new connection after the session %s: %v", history(len(c.Reqs)), err)
	}
	defer conn2.Close()
	for k, kind := range []string{"sendall", "stop"} {
		conn2.SetWriteDeadline(time.Now().Add(patience))
		conn2.Write([]byte(c11wText(kind, 1000+k)))
		select {
		case r, ok := <-replies2:
			if !ok {
				return vFailf("server-gone", "a new connection is closed without an answer after the session %s", history(len(c.Reqs)))
			}
			if strings.TrimSpace(string(r.ID)) != strconv.Itoa(1000+k) {
				return vFailf("wrong-reply", "%s on a new connection is answered with id %s", kind, r.ID)
			}
		case <-time.After(patience):
			if vStarved(patience) {
				return vVerdict{Inconclusive: "harness starved while waiting for an answer"}
			}
			return vFailf("server-stalled", "%s on a new connection got no answer within %v after the session %s", kind, patience, history(len(c.Reqs)))
		}
	}
	v.NonTrivial = validAfterMalformed > 0
	if validAfterMalformed > 0 {
		v.Classes = append(v.Classes, "request-after-malformed")
	}
	if closed {
		v.Classes = append(v.Classes, "server-closed-connection")
	}
	if idled {
		v.Classes = append(v.Classes, "idle-across-a-heartbeat-after-a-self-ended-source")
	}
	return v
}

func TestVerif_C11W(t *testing.T) { vCheck(t, "C11W", c11wGen, c11wRun) }
