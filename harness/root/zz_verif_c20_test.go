//go:build verif

package dastard

// C20: run-log side files (external-trigger, data-drop, experiment-state) record every event exactly
// once, in order; complete and closed after STOP; nothing carried over into the next START.
// A generated history of blocks (arbitrary external-trigger lists, drop counts) interleaved with
// START/STOP/PAUSE/UNPAUSE[ label]/state-label requests is applied to a real AnySource; the three
// files of every START..STOP cycle are decoded independently and compared with the harness' event log.

import (
	"bytes"
	"encoding/binary"
	"fmt"
	"os"
	"path/filepath"
	"strconv"
	"sort"
	"strings"
	"testing"
	"time"

	"github.com/spf13/viper"
	"pgregory.net/rapid"
)

type c20Op struct {
	Kind    string  `json:"kind"` // block wc label
	Ext     []int64 `json:"ext,omitempty"`
	ExtRel  []int   `json:"ext_rel,omitempty"` // further external-trigger counts, given in frames relative to the block's first frame (negative: before it, as the Abaco's separately travelling trigger packets can be), in order
	Dropped int     `json:"dropped,omitempty"`
	Skip    int     `json:"skip,omitempty"` // frames skipped before this block (frame numbers jump)
	Request string  `json:"request,omitempty"`
	Types   int     `json:"types,omitempty"`
	Label   string  `json:"label,omitempty"`
	LongPath bool   `json:"long_path,omitempty"` // START with a base path so long that the run directory can be made but the experiment-state file cannot: rejected
	N       int     `json:"n,omitempty"` // archive: a raw-data block of so many samples is requested (filled from the following blocks)
}

type c20Case struct {
	ViaRPC bool    `json:"via_rpc,omitempty"` // write-control and label requests go through the RPC layer (SourceControl), as a client's do
	Nchan  int     `json:"nchan"`
	SubDiv int     `json:"subdiv"`
	// SavedWriting: the saved configuration holds the WRITING topic of an earlier run that was still writing when it ended
	// (active, with that session's file names): the new run starts idle and must leave those files alone
	SavedWriting bool `json:"saved_writing,omitempty"`
	F0     int64   `json:"f0"`
	Ops    []c20Op `json:"ops"`
}

var c20Labels = []string{"A", "B", "stateA", "cal 1", "Fe55, 5.9keV", "x", "#not-a-comment", "STOP", "START", "PAUSE", " lead", "trail ", "ü-umlaut", "1234567890", "a,b", "tab\there", "FE55_50%", "100%% sure", "%s %d %v", "%!"}

func c20GenExt(t *rapid.T) []int64 {
	n := 0
	switch rapid.IntRange(0, 5).Draw(t, "extclass") {
	case 0, 1:
		n = 0
	case 2:
		n = 1
	case 3:
		n = rapid.IntRange(2, 6).Draw(t, "next")
	case 4:
		n = rapid.IntRange(7, 50).Draw(t, "next")
	default:
		n = rapid.IntRange(500, 700).Draw(t, "next") // > 4096 bytes: more than the bufio default buffer
	}
	out := make([]int64, n)
	for i := range out {
		switch rapid.IntRange(0, 5).Draw(t, "extval") {
		case 0:
			out[i] = rapid.SampledFrom([]int64{0, -1, 10, 0x0a0a0a0a0a0a0a0a, 1<<63 - 1, -1 << 63, 0x23}).Draw(t, "extspecial")
		case 1:
			out[i] = rapid.Int64().Draw(t, "extany")
		default:
			out[i] = rapid.Int64Range(0, 1<<40).Draw(t, "extsmall")
		}
	}
	return out
}

func c20Gen(t *rapid.T) c20Case {
	c := c20Case{Nchan: rapid.IntRange(1, 3).Draw(t, "nchan"), SubDiv: rapid.SampledFrom([]int{1, 4, 64, 1000}).Draw(t, "subdiv"),
		F0: rapid.SampledFrom([]int64{0, 1, 123456, 1 << 31, 1 << 40}).Draw(t, "f0")}
	c.ViaRPC = rapid.Bool().Draw(t, "viarpc")
	c.SavedWriting = rapid.IntRange(0, 3).Draw(t, "savedwriting") == 0
	block := func() c20Op {
		op := c20Op{Kind: "block", Ext: c20GenExt(t)}
		if rapid.IntRange(0, 2).Draw(t, "extrel") == 0 {
			op.Ext = nil
			op.ExtRel = rapid.SliceOfN(rapid.IntRange(-30, 15), 1, 6).Draw(t, "rel")
			sort.Ints(op.ExtRel)
		}
		if rapid.IntRange(0, 2).Draw(t, "hasdrop") == 0 {
			op.Dropped = rapid.SampledFrom([]int{1, 2, 17, 1000, 99999999, 1 << 40}).Draw(t, "dropped")
			op.Skip = rapid.SampledFrom([]int{0, op.Dropped & 0xffff, 5}).Draw(t, "skip")
		}
		return op
	}
	label := func() c20Op {
		return c20Op{Kind: "label", Label: rapid.SampledFrom(c20Labels).Draw(t, "label")}
	}
	start := func() c20Op {
		return c20Op{Kind: "wc", Request: "START", Types: rapid.SampledFrom([]int{1, 2, 3, 1, 0}).Draw(t, "types")}
	}
	anyOp := func() c20Op {
		switch k := rapid.IntRange(0, 20).Draw(t, "opkind"); {
		case k == 20:
			return c20Op{Kind: "archive", N: rapid.SampledFrom([]int{1, 16, 20, 40, 100, 1000}).Draw(t, "archn")}
		case k < 8:
			return block()
		case k < 11:
			return label()
		case k < 13:
			st := start()
			st.LongPath = rapid.IntRange(0, 3).Draw(t, "longpath") == 0
			return st
		case k < 15:
			return c20Op{Kind: "wc", Request: "STOP"}
		case k < 16:
			return c20Op{Kind: "wc", Request: "PAUSE"}
		case k < 18:
			return c20Op{Kind: "wc", Request: rapid.SampledFrom([]string{"UNPAUSE", "UNPAUSE L1", "UNPAUSE after pause", "unpause lower"}).Draw(t, "unpause")}
		default:
			return c20Op{Kind: "wc", Request: rapid.SampledFrom([]string{"UNPAUSEx", "UNPAUSE ", "", "RESTART"}).Draw(t, "bad")}
		}
	}
	if rapid.IntRange(0, 9).Draw(t, "skeleton") < 6 {
		ncyc := rapid.IntRange(2, 3).Draw(t, "ncycles")
		var skel []c20Op
		for i := 0; i < ncyc; i++ {
			skel = append(skel, c20Op{Kind: "wc", Request: "START", Types: 1})
			if rapid.IntRange(0, 2).Draw(t, "archive") == 0 {
				skel = append(skel, c20Op{Kind: "archive", N: rapid.SampledFrom([]int{20, 40, 100}).Draw(t, "archn2")})
			}
			skel = append(skel, block(), label(), block())
			if rapid.Bool().Draw(t, "pause") {
				skel = append(skel, c20Op{Kind: "wc", Request: "PAUSE"}, block(), c20Op{Kind: "wc", Request: "UNPAUSE resumed"}, block())
			}
			skel = append(skel, c20Op{Kind: "wc", Request: "STOP"})
			if rapid.Bool().Draw(t, "idleblock") {
				skel = append(skel, block(), label())
			}
		}
		for _, op := range skel {
			for rapid.IntRange(0, 3).Draw(t, "noise") == 0 {
				c.Ops = append(c.Ops, anyOp())
			}
			c.Ops = append(c.Ops, op)
		}
		return c
	}
	n := rapid.IntRange(2, 24).Draw(t, "nops")
	for i := 0; i < n; i++ {
		c.Ops = append(c.Ops, anyOp())
	}
	return c
}

type c20Cycle struct {
	pattern string
	ext     []int64
	drops   [][2]int64 // first frame, count
	labels  []string   // START, accepted labels..., STOP
	stopped bool
}

var c20Counter int

// c20CheckCycle decodes the three side files of one finished cycle.
func c20CheckCycle(cy *c20Cycle, when string, notBefore, notAfter int64) *vVerdict {
	fail := func(sig, f string, a ...any) *vVerdict { v := vFailf(sig, when+": "+f, a...); return &v }
	// --- external triggers: one header line, then little-endian int64s
	fn := fmt.Sprintf(cy.pattern, "external_trigger", "bin")
	b, err := os.ReadFile(fn)
	if err != nil {
		if len(cy.ext) > 0 {
			return fail("exttrig-file-missing", "%d external triggers were delivered while writing was active, but %v", len(cy.ext), err)
		}
	} else {
		nl := bytes.IndexByte(b, '\n')
		if nl < 0 || len(b) == 0 || b[0] != '#' {
			return fail("exttrig-header", "%s does not start with a '#' header line (%d bytes)", filepath.Base(fn), len(b))
		}
		body := b[nl+1:]
		if len(body)%8 != 0 {
			return fail("exttrig-length", "%s: body of %d bytes is not a whole number of int64 values", filepath.Base(fn), len(body))
		}
		got := make([]int64, len(body)/8)
		for i := range got {
			got[i] = int64(binary.LittleEndian.Uint64(body[8*i:]))
		}
		if len(got) != len(cy.ext) {
			sig := "exttrig-lost"
			if len(got) > len(cy.ext) {
				sig = "exttrig-extra"
			}
			return fail(sig, "%s holds %d external-trigger counts, %d were delivered while writing was active (file %v..., delivered %v...)",
				filepath.Base(fn), len(got), len(cy.ext), c20Head(got), c20Head(cy.ext))
		}
		for i := range got {
			if got[i] != cy.ext[i] {
				return fail("exttrig-differs", "%s: count %d is %d, delivered %d", filepath.Base(fn), i, got[i], cy.ext[i])
			}
		}
	}
	// --- data drops: header + "first count" lines
	fn = fmt.Sprintf(cy.pattern, "data_drop", "txt")
	b, err = os.ReadFile(fn)
	if err != nil {
		if len(cy.drops) > 0 {
			return fail("datadrop-file-missing", "%d blocks reported dropped frames while writing was active, but %v", len(cy.drops), err)
		}
	} else {
		lines := strings.Split(string(b), "\n")
		if len(lines) == 0 || !strings.HasPrefix(lines[0], "#") {
			return fail("datadrop-header", "%s does not start with a '#' header line", filepath.Base(fn))
		}
		if lines[len(lines)-1] != "" {
			return fail("datadrop-truncated", "%s does not end with a newline", filepath.Base(fn))
		}
		lines = lines[1 : len(lines)-1]
		var got [][2]int64
		for _, l := range lines {
			f := strings.Fields(l)
			if len(f) != 2 {
				return fail("datadrop-line", "%s: malformed line %q", filepath.Base(fn), l)
			}
			a, e1 := strconv.ParseInt(f[0], 10, 64)
			n, e2 := strconv.ParseInt(f[1], 10, 64)
			if e1 != nil || e2 != nil {
				return fail("datadrop-line", "%s: malformed line %q", filepath.Base(fn), l)
			}
			got = append(got, [2]int64{a, n})
		}
		if fmt.Sprint(got) != fmt.Sprint(cy.drops) {
			return fail("datadrop-differs", "%s holds (first frame, count) lines %v; blocks with drops while writing was active were %v", filepath.Base(fn), got, cy.drops)
		}
	}
	// --- experiment state: header, START, labels, STOP
	fn = fmt.Sprintf(cy.pattern, "experiment_state", "txt")
	b, err = os.ReadFile(fn)
	if err != nil {
		return fail("state-file-missing", "%v", err)
	}
	lines := strings.Split(string(b), "\n")
	if len(lines) < 2 || !strings.HasPrefix(lines[0], "#") || lines[len(lines)-1] != "" {
		return fail("state-file-format", "%s: no header line or no final newline: %q", filepath.Base(fn), string(b))
	}
	lines = lines[1 : len(lines)-1]
	var got []string
	last := notBefore
	for _, l := range lines {
		i := strings.Index(l, ", ")
		if i < 0 {
			return fail("state-line", "%s: malformed line %q", filepath.Base(fn), l)
		}
		ts, e := strconv.ParseInt(l[:i], 10, 64)
		if e != nil {
			return fail("state-line", "%s: malformed time stamp in %q", filepath.Base(fn), l)
		}
		if ts < last || ts > notAfter {
			return fail("state-timestamps", "%s: time stamp %d of %q is outside [%d, %d] (previous line / start of cycle .. now)", filepath.Base(fn), ts, l, last, notAfter)
		}
		last = ts
		got = append(got, l[i+2:])
	}
	if strings.Join(got, "\n") != strings.Join(cy.labels, "\n") {
		return fail("state-labels-differ", "%s holds labels %q; accepted requests were %q", filepath.Base(fn), got, cy.labels)
	}
	return nil
}

func c20Head(x []int64) []int64 {
	if len(x) > 6 {
		return x[:6]
	}
	return x
}

func c20Run(c c20Case) (v vVerdict) {
	if c.Nchan < 1 || c.Nchan > 8 || c.F0 < 0 {
		return v
	}
	c20Counter++
	work := os.Getenv("VERIF_WORK")
	if work == "" {
		work = os.TempDir()
	}
	root := filepath.Join(work, fmt.Sprintf("c20_%d_%d", os.Getpid(), c20Counter))
	os.RemoveAll(root)
	os.MkdirAll(root, 0o755)
	defer os.RemoveAll(root)
	vDrainRecords()
	holder := newScripted(c.Nchan, time.Millisecond, 48) // only its embedded AnySource is used; it makes the source a DataSource for the RPC layer
	ds := &holder.AnySource
	ds.name = "verif"
	ds.sampleRate = 1e6
	ds.samplePeriod = time.Microsecond
	ds.subframeDivisions = c.SubDiv
	if err := ds.PrepareChannels(); err != nil {
		return vFailf("prepare", "%v", err)
	}
	ds.rowColCodes = make([]RowColCode, c.Nchan)
	viper.Reset()
	oldFiles := map[string]string{}
	if c.SavedWriting {
		oldDir := filepath.Join(root, "20240101", "0007")
		os.MkdirAll(oldDir, 0o755)
		pat := filepath.Join(oldDir, "20240101_run0007_%s.%s")
		for _, k := range []string{"experiment_state.txt", "external_trigger.bin", "data_drop.txt"} {
			fn := fmt.Sprintf(filepath.Join(oldDir, "20240101_run0007_%s"), k)
			content := "content of the earlier session: " + k + "\n"
			os.WriteFile(fn, []byte(content), 0o644)
			oldFiles[fn] = content
		}
		viper.Set("writing", map[string]interface{}{"active": true, "paused": false, "basepath": root, "filenamepattern": pat, "writeljh22": true,
			"experimentstatefilename": filepath.Join(oldDir, "20240101_run0007_experiment_state.txt"), "experimentstatelabel": "OLD",
			"externaltriggerfilename": filepath.Join(oldDir, "20240101_run0007_external_trigger.bin"),
			"datadropfilename":        filepath.Join(oldDir, "20240101_run0007_data_drop.txt")})
	}
	if err := ds.PrepareRun(4, 8); err != nil {
		return vFailf("prepare", "%v", err)
	}
	if st := ds.ComputeWritingState(); c.SavedWriting && (st.Active || st.FilenamePattern != "") {
		return vFailf("restored-as-writing", "the saved configuration says the last run was writing: the new run reports active=%v pattern %q before any START", st.Active, st.FilenamePattern)
	}
	defer func() {
		ds.numberWrittenTicker.Stop()
		ds.writingState.externalTriggerTicker.Stop()
		ds.writingState.dataDropTicker.Stop()
	}()
	ds.writingState.BasePath = root
	sc := NewSourceControl()
	sc.clientUpdates = clientMessageChan
	ms := newMapServer()
	ms.clientUpdates = clientMessageChan
	sc.mapServer = ms
	sc.ActiveSource = holder
	sc.isSourceActive = true
	ds.sourceState = Active
	hbStop := make(chan struct{})
	defer close(hbStop)
	go func() {
		for {
			select {
			case <-sc.heartbeats:
			case <-hbStop:
				return
			}
		}
	}()
	serveOne := func() { // the core loop's part: take the queued request, if any, and run it
		go func() {
			select {
			case f := <-sc.queuedRequests:
				f()
			case <-time.After(20 * time.Second):
			}
		}()
	}
	openInDir := func(dir string) []string {
		var out []string
		ents, _ := os.ReadDir("/proc/self/fd")
		for _, e := range ents {
			if tgt, err := os.Readlink("/proc/self/fd/" + e.Name()); err == nil && strings.HasPrefix(tgt, dir) {
				out = append(out, tgt)
			}
		}
		return out
	}
	var cur *c20Cycle
	var cycleStart int64
	cycles, goodCycles := 0, 0
	archives := 0
	longStarts := 0
	pos := c.F0
	const blockLen = 16
	closeCycle := func(when string) *vVerdict {
		cur.stopped = true
		cur.labels = append(cur.labels, "STOP")
		if f := c20CheckCycle(cur, when, cycleStart, time.Now().UnixNano()); f != nil {
			return f
		}
		if open := openInDir(filepath.Dir(cur.pattern)); len(open) > 0 {
			f := vFailf("files-open-after-stop", "%s: still open: %v", when, open)
			return &f
		}
		cycles++
		if len(cur.ext) > 0 && len(cur.labels) > 2 {
			goodCycles++
		}
		return nil
	}
	for i, op := range c.Ops {
		st := ds.ComputeWritingState()
		switch op.Kind {
		case "archive":
			// a client asks for a block of raw data: the following blocks are copied into it, whatever else goes on
			if op.N < 1 || op.N > 100000 || ds.archiveBlock.active {
				continue
			}
			file, err := os.CreateTemp(root, "raw_*_inprogress.npz")
			if err != nil {
				continue
			}
			if err := ds.ArchiveDataBlock(op.N, file, strings.Replace(file.Name(), "_inprogress", "", 1)); err != nil {
				file.Close()
				continue
			}
			archives++
		case "block":
			pos += int64(op.Skip)
			block := &dataBlock{segments: make([]DataSegment, c.Nchan), nSamp: blockLen}
			stamp := vPipeT0.Add(time.Duration(pos-c.F0) * time.Microsecond)
			if ds.archiveBlock.active {
				stamp = time.Now() // a raw-data request only takes blocks younger than itself
			}
			for ch := 0; ch < c.Nchan; ch++ {
				block.segments[ch] = DataSegment{rawData: make([]RawType, blockLen), framesPerSample: 1, firstFrameIndex: FrameIndex(pos),
					firstTime: stamp, framePeriod: time.Microsecond, droppedFrames: op.Dropped}
			}
			ext := append([]int64(nil), op.Ext...)
			for _, rel := range op.ExtRel {
				ext = append(ext, (pos+int64(rel))*int64(c.SubDiv))
			}
			block.externalTriggerRowcounts = append([]int64(nil), ext...)
			if err := ds.ProcessSegments(block); err != nil {
				return vFailf("process-error", "op %d: %v", i, err)
			}
			vDrainRecords()
			if st.Active {
				if cur == nil || cur.stopped {
					return vFailf("state-active-without-start", "op %d: reported state is active but no START is in force", i)
				}
				cur.ext = append(cur.ext, ext...)
				if op.Dropped > 0 {
					cur.drops = append(cur.drops, [2]int64{pos, int64(op.Dropped)})
				}
			}
			pos += blockLen
		case "label":
			var err error
			if c.ViaRPC {
				serveOne()
				var ok bool
				err = sc.SetExperimentStateLabel(&StateLabelConfig{Label: op.Label, WaitForError: true}, &ok)
			} else {
				err = ds.SetExperimentStateLabel(time.Now(), op.Label)
			}
			if err == nil {
				if !st.Active || cur == nil || cur.stopped {
					return vFailf("label-accepted-while-idle", "op %d: state label %q was accepted although writing is not active", i, op.Label)
				}
				cur.labels = append(cur.labels, op.Label)
			}
		case "wc":
			cfg := &WriteControlConfig{Request: op.Request, WriteLJH22: op.Types&1 != 0, WriteLJH3: op.Types&2 != 0}
			if op.LongPath {
				long := filepath.Join(root, "L")
				for len(long) < 4050-201 {
					long = filepath.Join(long, strings.Repeat("x", 200))
				}
				if pad := 4050 - len(long) - 1; pad > 0 {
					long = filepath.Join(long, strings.Repeat("y", pad))
				}
				cfg.Path = long
				longStarts++
			}
			tReq := time.Now().UnixNano()
			var err error
			if c.ViaRPC {
				serveOne()
				var ok bool
				err = sc.WriteControl(cfg, &ok)
			} else {
				err = ds.WriteControl(cfg)
			}
			after := ds.ComputeWritingState()
			if err != nil {
				continue
			}
			up := strings.ToUpper(op.Request)
			switch {
			case strings.HasPrefix(up, "START"):
				if !after.Active || after.FilenamePattern == "" {
					return vFailf("start-not-reported", "op %d: START succeeded but the reported state is inactive", i)
				}
				if cur != nil && !cur.stopped {
					return vFailf("start-while-active", "op %d: START succeeded while a previous START is still in force", i)
				}
				cur = &c20Cycle{pattern: after.FilenamePattern, labels: []string{"START"}}
				cycleStart = tReq
			case strings.HasPrefix(up, "STOP"):
				if cur != nil && !cur.stopped {
					if f := closeCycle(fmt.Sprintf("after STOP (op %d)", i)); f != nil {
						return *f
					}
				}
			case strings.HasPrefix(up, "UNPAUSE"):
				if len(op.Request) > 8 && cur != nil && !cur.stopped {
					cur.labels = append(cur.labels, op.Request[8:])
				}
			}
		}
	}
	if cur != nil && !cur.stopped {
		if err := ds.WriteControl(&WriteControlConfig{Request: "STOP"}); err != nil {
			return vFailf("final-stop-error", "final STOP: %v", err)
		}
		if f := closeCycle("after the final STOP"); f != nil {
			return *f
		}
	}
	if ds.archiveBlock.active {
		ds.finishArchiveBlock() // let the request's writer goroutine end
	}
	for fn, want := range oldFiles {
		if b, err := os.ReadFile(fn); err != nil || string(b) != want {
			return vFailf("earlier-session-file-changed", "the file %s of an earlier session (named in the saved configuration) was changed by this run: now %q (%v)", fn, vTrim(string(b), 200), err)
		}
	}
	if c.SavedWriting {
		v.Classes = append(v.Classes, "saved-configuration-of-a-writing-run")
	}
	if archives > 0 {
		v.Classes = append(v.Classes, "raw-data-archive-requested")
	}
	if longStarts > 0 {
		v.Classes = append(v.Classes, "start-rejected-at-the-state-file")
	}
	v.NonTrivial = goodCycles >= 2
	if c.ViaRPC {
		v.Classes = append(v.Classes, "requests-through-rpc-layer")
	}
	if cycles >= 2 {
		v.Classes = append(v.Classes, "two-cycles")
	}
	if goodCycles >= 1 {
		v.Classes = append(v.Classes, "cycle-with-exttrig-and-label")
	}
	return v
}

func TestVerif_C20(t *testing.T) { vCheck(t, "C20", c20Gen, c20Run) }
