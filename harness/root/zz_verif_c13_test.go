//go:build verif

package dastard

// C13: per-record analysis values equal their definitions.
// AnalyzeData is run on generated records (with and without projectors/basis installed through the
// real SetProjectorsBasis validation) and compared with a reference evaluated in 300-bit
// big.Float arithmetic.  The accepted error of each value is an a-priori bound for a straightforward
// float64 evaluation of the defining formula (gamma_n * sum of |terms|).

import (
	"encoding/base64"
	"fmt"
	"math"
	"math/big"
	"testing"
	"time"

	"github.com/spf13/viper"

	"gonum.org/v1/gonum/mat"
	"pgregory.net/rapid"
)

type c13Extra struct {
	Npre int      `json:"npre"`
	Data []uint16 `json:"data"`
}

type c13Case struct {
	Npre   int       `json:"npre"`
	Signed bool      `json:"signed"`
	Data   []uint16  `json:"data"`
	// further records analysed in the same AnalyzeData call (same length/npre when projectors are loaded;
	// shorter variable-length records otherwise, as edge-multi triggering produces them)
	More []c13Extra `json:"more,omitempty"`
	NBases int       `json:"nbases"`
	Proj   []float64 `json:"proj,omitempty"`  // nbases x len(data), row major
	Basis  []float64 `json:"basis,omitempty"` // len(data) x nbases, row major
	// ViaRPC: the model reaches the channel as a client sends it - base64 text through SourceControl.ConfigureProjectorsBasis and the
	// source's ConfigureProjectorsBases - instead of SetProjectorsBasis on the processor
	ViaRPC bool `json:"via_rpc,omitempty"`
	// Prior (with ViaRPC): the channel got an earlier model the same way: 1 projectors 2.5 times the final ones and the same basis,
	// 2 everything negated, 3 another number of bases
	Prior int `json:"prior,omitempty"`
}

func c13GenMatrix(t *rapid.T, n int, label string) []float64 {
	out := make([]float64, n)
	kind := rapid.IntRange(0, 4).Draw(t, label+"kind")
	for i := range out {
		var x float64
		switch kind {
		case 0: // O(1/n)-ish projector-like entries
			x = rapid.Float64Range(-0.05, 0.05).Draw(t, label)
		case 1: // wide dynamic range
			e := rapid.IntRange(-6, 3).Draw(t, label+"e")
			x = rapid.Float64Range(1, 10).Draw(t, label) * math.Pow(10, float64(e))
			if rapid.Bool().Draw(t, label+"s") {
				x = -x
			}
		case 4: // projectors for a basis in raw ADC units: tiny entries
			x = rapid.Float64Range(-4e-7, 4e-7).Draw(t, label)
		case 2: // sparse
			if rapid.IntRange(0, 3).Draw(t, label+"z") == 0 {
				x = rapid.Float64Range(-1000, 1000).Draw(t, label)
			}
		default:
			x = rapid.Float64Range(-1, 1).Draw(t, label)
		}
		out[i] = x
	}
	return out
}

func c13Gen(t *rapid.T) c13Case {
	var c c13Case
	switch rapid.IntRange(0, 5).Draw(t, "sizeclass") {
	case 0:
		c.Npre = rapid.IntRange(3, 6).Draw(t, "npre")
	case 1:
		c.Npre = rapid.IntRange(3, 256).Draw(t, "npre")
	default:
		c.Npre = rapid.IntRange(3, 40).Draw(t, "npre")
	}
	var npost int
	switch rapid.IntRange(0, 5).Draw(t, "postclass") {
	case 0:
		npost = 1
	case 1:
		npost = rapid.IntRange(1, 1024-c.Npre).Draw(t, "npost")
	default:
		npost = rapid.IntRange(1, 60).Draw(t, "npost")
	}
	n := c.Npre + npost
	c.Signed = rapid.Bool().Draw(t, "signed")
	c.Data = make([]uint16, n)
	kind := rapid.IntRange(0, 7).Draw(t, "datakind")
	base := uint16(rapid.IntRange(0, 65535).Draw(t, "base"))
	amp := rapid.IntRange(0, 65535).Draw(t, "amp")
	for i := range c.Data {
		switch kind {
		case 0: // constant
			c.Data[i] = base
		case 1: // full scale constant / extremes
			c.Data[i] = []uint16{0, 65535, 32767, 32768}[int(base)%4]
		case 2: // alternating extremes
			if i%2 == 0 {
				c.Data[i] = 0
			} else {
				c.Data[i] = 65535
			}
		case 3: // pulse on a baseline, wrap-around allowed (signed wrap)
			c.Data[i] = base
			if i >= c.Npre {
				c.Data[i] = base + uint16(float64(amp)*math.Exp(-float64(i-c.Npre)/20.0))
			}
		case 4: // baseline with small noise near the signed wrap
			c.Data[i] = uint16(32768 + rapid.IntRange(-5, 5).Draw(t, "noise"))
		case 5: // slope in the pretrigger
			c.Data[i] = base + uint16(i*(amp%50))
		default:
			c.Data[i] = uint16(rapid.IntRange(0, 65535).Draw(t, "d"))
		}
	}
	if rapid.IntRange(0, 2).Draw(t, "hasproj") != 0 {
		c.NBases = rapid.IntRange(1, 6).Draw(t, "nbases")
		if n > 300 {
			c.NBases = rapid.IntRange(1, 2).Draw(t, "nbasesbig")
		}
		c.ViaRPC = rapid.IntRange(0, 2).Draw(t, "viarpc") == 0
		if c.ViaRPC && n <= 12 && rapid.IntRange(0, 2).Draw(t, "square") == 0 {
			c.NBases = n // a square model: legal, and the one shape in which rows and columns can be confused
		}
		c.Proj = c13GenMatrix(t, c.NBases*n, "p")
		c.Basis = c13GenMatrix(t, n*c.NBases, "b")
		if c.ViaRPC {
			c.Prior = rapid.SampledFrom([]int{0, 0, 1, 1, 2, 3}).Draw(t, "prior")
			if c.Prior == 1 && rapid.Bool().Draw(t, "tinyproj") {
				for i := range c.Proj {
					c.Proj[i] = rapid.Float64Range(-4e-7, 4e-7).Draw(t, "tp")
				}
			}
		}
	}
	if n <= 200 {
		nmore := rapid.IntRange(0, 3).Draw(t, "nmore")
		for k := 0; k < nmore; k++ {
			e := c13Extra{Npre: c.Npre}
			ln := n
			if c.NBases == 0 && rapid.Bool().Draw(t, "short") {
				e.Npre = rapid.IntRange(3, c.Npre).Draw(t, "enpre")
				ln = rapid.IntRange(e.Npre+1, e.Npre+npost).Draw(t, "elen")
			}
			e.Data = make([]uint16, ln)
			mode := rapid.IntRange(0, 2).Draw(t, "emode")
			for i := range e.Data {
				switch mode {
				case 0:
					e.Data[i] = c.Data[i%n] + uint16(k+1)*uint16(i)
				case 1:
					e.Data[i] = uint16(rapid.IntRange(0, 65535).Draw(t, "ed"))
				default:
					e.Data[i] = uint16(1000 + 37*k + i*i)
				}
			}
			c.More = append(c.More, e)
		}
	}
	return c
}

// c13LoadViaRPC puts a real SourceControl in front of a source with one channel, sends the model(s) as a client does and returns
// the channel's processor.
func c13LoadViaRPC(c *c13Case, n int) (*DataStreamProcessor, *vVerdict) {
	holder := newScripted(1, time.Millisecond, 48) // only its embedded AnySource is used
	ds := &holder.AnySource
	ds.name = "verif"
	ds.sampleRate = 1e6
	ds.samplePeriod = time.Microsecond
	ds.subframeDivisions = 1
	fail := func(sig, f string, a ...interface{}) (*DataStreamProcessor, *vVerdict) {
		v := vFailf(sig, f, a...)
		return nil, &v
	}
	if err := ds.PrepareChannels(); err != nil {
		return fail("harness", "PrepareChannels: %v", err)
	}
	ds.rowColCodes = make([]RowColCode, 1)
	viper.Reset()
	if err := ds.PrepareRun(c.Npre, n); err != nil {
		return fail("harness", "PrepareRun: %v", err)
	}
	ds.numberWrittenTicker.Stop()
	ds.writingState.externalTriggerTicker.Stop()
	ds.writingState.dataDropTicker.Stop()
	sc := NewSourceControl()
	sc.clientUpdates = clientMessageChan
	sc.ActiveSource = holder
	sc.isSourceActive = true
	sc.status.Npresamp, sc.status.Nsamples = c.Npre, n
	ds.sourceState = Active
	send := func(nb int, proj, basis []float64, what string) *vVerdict {
		P := mat.NewDense(nb, n, append([]float64(nil), proj...))
		B := mat.NewDense(n, nb, append([]float64(nil), basis...))
		pb, _ := P.MarshalBinary()
		bb, _ := B.MarshalBinary()
		done := make(chan struct{})
		go func() { // the core loop's part: take the queued request and run it
			defer close(done)
			select {
			case f := <-sc.queuedRequests:
				f()
			case <-time.After(60 * time.Second):
			}
		}()
		var ok bool
		err := sc.ConfigureProjectorsBasis(&ProjectorsBasisObject{ChannelIndex: 0, ProjectorsBase64: base64.StdEncoding.EncodeToString(pb),
			BasisBase64: base64.StdEncoding.EncodeToString(bb), ModelDescription: what}, &ok)
		select { // (a request refused before it was queued leaves the stand-in core loop waiting: release it)
		case <-done:
		case sc.queuedRequests <- func() {}:
			<-done
		}
		if err != nil {
			v := vFailf("projectors-rejected", "%s: compatible projectors %dx%d / basis %dx%d sent through the RPC method are rejected: %v", what, nb, n, n, nb, err)
			return &v
		}
		return nil
	}
	switch c.Prior {
	case 1, 2:
		p1 := make([]float64, len(c.Proj))
		b1 := append([]float64(nil), c.Basis...)
		for i, x := range c.Proj {
			if c.Prior == 1 {
				p1[i] = 2.5 * x
			} else {
				p1[i] = -x
			}
		}
		if c.Prior == 2 {
			for i := range b1 {
				b1[i] = -b1[i]
			}
		}
		if bad := send(c.NBases, p1, b1, "earlier model"); bad != nil {
			return nil, bad
		}
	case 3:
		nb := c.NBases%3 + 1
		if nb == c.NBases {
			nb++
		}
		p1, b1 := make([]float64, nb*n), make([]float64, nb*n)
		for i := range p1 {
			p1[i], b1[i] = float64(i%7)-3, float64(i%5)-2
		}
		if bad := send(nb, p1, b1, "earlier model"); bad != nil {
			return nil, bad
		}
	}
	if bad := send(c.NBases, c.Proj, c.Basis, "final model"); bad != nil {
		return nil, bad
	}
	return ds.processors[0], nil
}

const c13Prec = 300

func bf(x float64) *big.Float { return new(big.Float).SetPrec(c13Prec).SetFloat64(x) }

func bfAbs(x *big.Float) *big.Float { return new(big.Float).SetPrec(c13Prec).Abs(x) }

const c13U = 1.0 / (1 << 53) // unit roundoff

// c13Close reports whether got is within tol (+ a relative 4u of want) of want.
func c13Close(got float64, want *big.Float, tol float64) (bool, float64) {
	if math.IsNaN(got) || math.IsInf(got, 0) {
		return false, math.Inf(1)
	}
	diff := new(big.Float).SetPrec(c13Prec).Sub(bf(got), want)
	d, _ := diff.Abs(diff).Float64()
	w, _ := bfAbs(want).Float64()
	return d <= tol+8*c13U*w+1e-300, d
}

func c13Run(c c13Case) (v vVerdict) {
	n := len(c.Data)
	if c.Npre < 3 || n <= c.Npre {
		return v
	}
	for _, e := range c.More {
		if e.Npre < 3 || e.Npre > c.Npre || len(e.Data) <= e.Npre || len(e.Data) > n || (c.NBases > 0 && (len(e.Data) != n || e.Npre != c.Npre)) {
			return v
		}
	}
	if c.NBases > 0 && (len(c.Proj) != c.NBases*n || len(c.Basis) != c.NBases*n) {
		return v
	}
	dsp := NewDataStreamProcessor(0, nil, c.Npre, n)
	if c.NBases > 0 && c.ViaRPC {
		d, bad := c13LoadViaRPC(&c, n)
		if bad != nil {
			return *bad
		}
		dsp = d
	} else if c.NBases > 0 {
		P := mat.NewDense(c.NBases, n, append([]float64(nil), c.Proj...))
		B := mat.NewDense(n, c.NBases, append([]float64(nil), c.Basis...))
		if err := dsp.SetProjectorsBasis(P, B, "verif"); err != nil {
			return vFailf("projectors-rejected", "compatible projectors %dx%d / basis %dx%d rejected: %v", c.NBases, n, n, c.NBases, err)
		}
	}
	mk := func(npre int, data []uint16) *DataRecord {
		raw := make([]RawType, len(data))
		for i, x := range data {
			raw[i] = RawType(x)
		}
		return &DataRecord{data: raw, presamples: npre, signed: c.Signed}
	}
	recs := []*DataRecord{mk(c.Npre, c.Data)}
	for _, e := range c.More {
		recs = append(recs, mk(e.Npre, e.Data))
	}
	dsp.AnalyzeData(recs)
	for i, rec := range recs {
		data, npre := c.Data, c.Npre
		if i > 0 {
			data, npre = c.More[i-1].Data, c.More[i-1].Npre
		}
		vi := c13CheckRecord(c, rec, npre, data)
		if vi.Fail {
			vi.Msg = fmt.Sprintf("record %d of %d in one AnalyzeData call (npre %d, len %d; channel configured %d/%d): %s", i, len(recs), npre, len(data), c.Npre, n, vi.Msg)
			return vi
		}
		if i == 0 {
			v = vi
		}
	}
	if len(recs) > 1 {
		v.Classes = append(v.Classes, "batch")
		for _, e := range c.More {
			if len(e.Data) != n || e.Npre != c.Npre {
				v.Classes = append(v.Classes, "variable-length-record")
				break
			}
		}
	}
	return v
}

// c13CheckRecord compares one analysed record with the definitions.
func c13CheckRecord(c c13Case, rec *DataRecord, npreRec int, cData []uint16) (v vVerdict) {
	n := len(cData)
	// sample values as the channel's signedness dictates
	d := make([]float64, n)
	hasNeg := false
	for i, x := range cData {
		if c.Signed {
			d[i] = float64(int16(x))
			if d[i] < 0 {
				hasNeg = true
			}
		} else {
			d[i] = float64(x)
		}
	}
	zero := func() *big.Float { return new(big.Float).SetPrec(c13Prec) }
	npre := npreRec
	npost := n - npre

	// pretrigger mean
	sumPre, sumAbsPre := zero(), 0.0
	for i := 0; i < npre; i++ {
		sumPre.Add(sumPre, bf(d[i]))
		sumAbsPre += math.Abs(d[i])
	}
	mean := zero().Quo(sumPre, bf(float64(npre)))
	meanF, _ := mean.Float64()
	if ok, e := c13Close(rec.pretrigMean, mean, 4*c13U*sumAbsPre/float64(npre)); !ok {
		return vFailf("pretrig-mean", "pretrigMean=%v, definition gives %v (err %g)", rec.pretrigMean, meanF, e)
	}
	// pretrigger delta = least-squares slope * (npre-1)
	xm := zero().Quo(bf(float64(npre-1)), bf(2))
	sxy, sxx, sAbs := zero(), zero(), 0.0
	for i := 0; i < npre; i++ {
		dx := zero().Sub(bf(float64(i)), xm)
		sxy.Add(sxy, zero().Mul(dx, bf(d[i])))
		sxx.Add(sxx, zero().Mul(dx, dx))
		dxf, _ := dx.Float64()
		sAbs += math.Abs(dxf) * (math.Abs(d[i]) + math.Abs(d[0]))
	}
	slope := zero().Quo(sxy, sxx)
	delta := zero().Mul(slope, bf(float64(npre-1)))
	deltaF, _ := delta.Float64()
	sxxF, _ := sxx.Float64()
	if ok, e := c13Close(rec.pretrigDelta, delta, float64(2*npre+8)*c13U*sAbs*float64(npre-1)/sxxF); !ok {
		return vFailf("pretrig-delta", "pretrigDelta=%v, definition (LSQ slope x (npre-1)) gives %v (err %g)", rec.pretrigDelta, deltaF, e)
	}
	// pulse average, rms, peak
	sumPost, sumAbsPost := zero(), 0.0
	ms := zero()
	maxPost := math.Inf(-1)
	msMag := 0.0
	for i := npre; i < n; i++ {
		sumPost.Add(sumPost, bf(d[i]))
		sumAbsPost += math.Abs(d[i])
		dev := zero().Sub(bf(d[i]), mean)
		ms.Add(ms, zero().Mul(dev, dev))
		msMag += d[i] * d[i]
		if d[i] > maxPost {
			maxPost = d[i]
		}
	}
	avg := zero().Sub(zero().Quo(sumPost, bf(float64(npost))), mean)
	avgF, _ := avg.Float64()
	if ok, e := c13Close(rec.pulseAverage, avg, 8*c13U*(sumAbsPost/float64(npost)+math.Abs(meanF))); !ok {
		return vFailf("pulse-average", "pulseAverage=%v, definition gives %v (err %g)", rec.pulseAverage, avgF, e)
	}
	ms.Quo(ms, bf(float64(npost)))
	msF, _ := ms.Float64()
	// magnitude of the terms of a one-pass evaluation: mean(d^2) + 2|m||mean(d)| + m^2
	msBound := float64(2*npost+32) * c13U * (msMag/float64(npost) + 2*math.Abs(meanF)*sumAbsPost/float64(npost) + meanF*meanF)
	if math.IsNaN(rec.pulseRMS) {
		if msF > msBound {
			return vFailf("pulse-rms", "pulseRMS is NaN but the mean square about the pretrigger mean is %g (> rounding bound %g)", msF, msBound)
		}
	} else {
		r2 := zero().Mul(bf(rec.pulseRMS), bf(rec.pulseRMS))
		if ok, e := c13Close(0, zero().Sub(ms, r2), msBound+16*c13U*msF); !ok || rec.pulseRMS < 0 {
			return vFailf("pulse-rms", "pulseRMS=%v (squared %g), definition gives mean square %g (err %g, bound %g)", rec.pulseRMS, rec.pulseRMS*rec.pulseRMS, msF, e, msBound)
		}
	}
	peak := zero().Sub(bf(maxPost), mean)
	peakF, _ := peak.Float64()
	okPeak, e := c13Close(rec.peakValue, peak, 8*c13U*(math.Abs(maxPost)+math.Abs(meanF)))
	if !okPeak && !(peakF < 0 && rec.peakValue == 0) {
		return vFailf("peak-value", "peakValue=%v, definition (max post-trigger sample - pretrigger mean) gives %v (err %g)", rec.peakValue, peakF, e)
	}
	// projections
	if c.NBases > 0 {
		if len(rec.modelCoefs) != c.NBases {
			return vFailf("coef-count", "%d model coefficients, want %d", len(rec.modelCoefs), c.NBases)
		}
		for k := 0; k < c.NBases; k++ {
			s, mag := zero(), 0.0
			for j := 0; j < n; j++ {
				p := c.Proj[k*n+j]
				s.Add(s, zero().Mul(bf(p), bf(d[j])))
				mag += math.Abs(p * d[j])
			}
			sF, _ := s.Float64()
			if ok, e := c13Close(rec.modelCoefs[k], s, float64(2*n+16)*c13U*mag); !ok {
				return vFailf("model-coef", "modelCoefs[%d]=%v, projectors x record gives %v (err %g, bound %g)", k, rec.modelCoefs[k], sF, e, float64(2*n+16)*c13U*mag)
			}
		}
		// residual = d - B*coefs with the reported coefficients
		res := make([]*big.Float, n)
		maxE := 0.0
		rsum := zero()
		for i := 0; i < n; i++ {
			m, mag := zero(), 0.0
			for k := 0; k < c.NBases; k++ {
				b := c.Basis[i*c.NBases+k]
				m.Add(m, zero().Mul(bf(b), bf(rec.modelCoefs[k])))
				mag += math.Abs(b * rec.modelCoefs[k])
			}
			res[i] = zero().Sub(bf(d[i]), m)
			rsum.Add(rsum, res[i])
			if e := float64(2*c.NBases+16) * c13U * (mag + math.Abs(d[i])); e > maxE {
				maxE = e
			}
		}
		rmean := zero().Quo(rsum, bf(float64(n)))
		ss, sraw := zero(), zero()
		for i := 0; i < n; i++ {
			dv := zero().Sub(res[i], rmean)
			ss.Add(ss, zero().Mul(dv, dv))
			sraw.Add(sraw, zero().Mul(res[i], res[i]))
		}
		ss.Quo(ss, bf(float64(n)))
		sraw.Quo(sraw, bf(float64(n)))
		sd := zero().Sqrt(ss)
		sdF, _ := sd.Float64()
		rmsRaw, _ := zero().Sqrt(sraw).Float64()
		tol := 2*maxE + float64(2*n+32)*c13U*rmsRaw
		if ok, e := c13Close(rec.residualStdDev, sd, tol); !ok {
			return vFailf("residual-stddev", "residualStdDev=%v, population std of record - basis x coefs gives %v (err %g, bound %g)", rec.residualStdDev, sdF, e, tol)
		}
	}
	constant := true
	for _, x := range cData {
		if x != cData[0] {
			constant = false
			break
		}
	}
	v.NonTrivial = !constant && ((c.Signed && hasNeg) || c.NBases > 0)
	if c.NBases > 0 {
		v.Classes = append(v.Classes, "projectors")
		if c.ViaRPC {
			v.Classes = append(v.Classes, "model-sent-as-a-client-does")
			if c.Prior > 0 {
				v.Classes = append(v.Classes, "model-replaced")
			}
			if c.NBases == n {
				v.Classes = append(v.Classes, "square-model")
			}
		}
	}
	if c.Signed && hasNeg {
		v.Classes = append(v.Classes, "signed-negative")
	}
	if constant {
		v.Classes = append(v.Classes, "constant")
	}
	if peakF < 0 {
		v.Classes = append(v.Classes, "all-post-below-mean")
	}
	if math.IsNaN(rec.pulseRMS) {
		v.Classes = append(v.Classes, "rms-nan-within-rounding")
	}
	return v
}

func TestVerif_C13(t *testing.T) { vCheck(t, "C13", c13Gen, c13Run) }
