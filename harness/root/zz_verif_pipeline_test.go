//go:build verif

package dastard

// Shared machinery for the triggering checks (C01, C02, C08, C09): a compact, serialisable description
// of multi-channel sample streams, a block partition, a configuration history, and a runner that
// feeds the real AnySource (PrepareChannels -> PrepareRun -> ProcessSegments per block) while keeping
// the ground-truth stream and everything that appeared on the publish channel.

import (
	"fmt"
	"math"
	"os"
	"path/filepath"
	"time"

	"github.com/spf13/viper"
	"pgregory.net/rapid"
)

type vPulse struct {
	Ch   int `json:"ch"`
	Pos  int `json:"pos"`
	Kind int `json:"kind"` // 0 step, 1 ramp, 2 exponential, 3 single-sample spike, 4 slow ramp then drop
	Amp  int `json:"amp"`
	Len  int `json:"len"`
}

type vStream struct {
	Signed bool `json:"signed"`
	Base   int  `json:"base"`
	Noise  int  `json:"noise"`
	Seed   int  `json:"seed"`
	Random bool `json:"random"`
}

type vTrigCfg struct {
	Auto        bool  `json:"auto,omitempty"`
	AutoDelayNs int64 `json:"auto_delay_ns,omitempty"`
	AutoVeto    int   `json:"auto_veto,omitempty"`
	Level       bool  `json:"level,omitempty"`
	LevelRising bool  `json:"level_rising,omitempty"`
	LevelLevel  int   `json:"level_level,omitempty"`
	Edge        bool  `json:"edge,omitempty"`
	EdgeRising  bool  `json:"edge_rising,omitempty"`
	EdgeFalling bool  `json:"edge_falling,omitempty"`
	EdgeLevel   int   `json:"edge_level,omitempty"`
	EMT         bool  `json:"emt,omitempty"`
	EMTMode     int   `json:"emt_mode,omitempty"` // 0 two full length (contaminated), 1 variable (short), 2 isolated
	EMTLevel    int   `json:"emt_level,omitempty"`
	EMTNMono    int   `json:"emt_nmono,omitempty"`
	EMTNoZero   bool  `json:"emt_disable_zero,omitempty"`
}

func (c vTrigCfg) state() TriggerState {
	ts := TriggerState{AutoTrigger: c.Auto, AutoDelay: time.Duration(c.AutoDelayNs), AutoVetoRange: RawType(c.AutoVeto),
		LevelTrigger: c.Level, LevelRising: c.LevelRising, LevelLevel: RawType(c.LevelLevel),
		EdgeTrigger: c.Edge, EdgeRising: c.EdgeRising, EdgeFalling: c.EdgeFalling, EdgeLevel: int32(c.EdgeLevel), EdgeMulti: c.EMT}
	if c.EMT {
		ts.EdgeMultiLevel = int32(c.EMTLevel)
		ts.EdgeMultiVerifyNMonotone = c.EMTNMono
		ts.EdgeMultiDisableZeroThreshold = c.EMTNoZero
		ts.EdgeMultiMakeContaminatedRecords = c.EMTMode == 0
		ts.EdgeMultiMakeShortRecords = c.EMTMode == 1
	}
	return ts
}

// emtValid is the documented validity rule for edge-multi settings with given record lengths.
func (c vTrigCfg) emtValid(npre, nsamp int) bool {
	if !c.EMT {
		return true
	}
	if !c.EMTNoZero && (npre < 4 || nsamp-npre < 4) {
		return false
	}
	return c.EMTNMono <= nsamp-npre
}

type vHistOp struct {
	At    int      `json:"at"`   // applied before block number At
	Kind  string   `json:"kind"` // trigger lengths connect disconnect stopcoupling
	Chans []int    `json:"chans,omitempty"`
	Trig  vTrigCfg `json:"trig,omitempty"`
	Npre  int      `json:"npre,omitempty"`
	Nsamp int      `json:"nsamp,omitempty"`
	Src   int      `json:"src,omitempty"`
	Rx    []int    `json:"rx,omitempty"`
	Coupling int   `json:"coupling,omitempty"` // 1 none, 2 FB->err, 3 err->FB (kind "coupling")
}

type vRestored struct {
	Chans []int    `json:"chans"`
	Trig  vTrigCfg `json:"trig"`
}

type vPipeCase struct {
	Nchan    int         `json:"nchan"`
	Npre     int         `json:"npre"`
	Nsamp    int         `json:"nsamp"`
	F0       int64       `json:"f0"`
	PeriodNs int64       `json:"period_ns"`
	// RateHz, when set: the source's true sample rate, whose period is not a whole number of ns; PeriodNs is then the rounded
	// period that real sources put into the blocks (round(1e9/RateHz))
	RateHz float64 `json:"rate_hz,omitempty"`
	Blocks   []int       `json:"blocks"`
	JitterNs []int64     `json:"jitter_ns,omitempty"`
	Streams  []vStream   `json:"streams"`
	Pulses   []vPulse    `json:"pulses,omitempty"`
	Restored []vRestored `json:"restored,omitempty"` // trigger settings found in the saved configuration at start
	// SlowPub: the publisher thread is slow - the publish channels hold one batch only and their consumer dawdles; processing must wait
	// for it, never drop a batch
	SlowPub  bool        `json:"slow_publisher,omitempty"`
	Lancero  bool        `json:"lancero,omitempty"`  // use a LanceroSource value (for error/feedback coupling); channels come in err/fb pairs
	Hist     []vHistOp   `json:"hist,omitempty"`
	// Gaps: frames the source skipped (lost data) before block k: the block's first frame number jumps by so many. Only used where
	// no oracle looks at frame numbers (crash-only runs); empty elsewhere.
	Gaps []int `json:"gaps,omitempty"`
	// Reports: before the blocks with these numbers the status reports are computed as the RPC layer does after a client's request
	// (full trigger state, group-trigger state, writing state): reading the state must not change what happens to the data
	Reports []int `json:"reports,omitempty"`
	// ViaRPC: trigger and record-length requests reach the source as a client's do, through the methods of a real SourceControl
	// (which converts compatibility fields, validates, queues the request for the core loop and reports the new state)
	ViaRPC bool `json:"via_rpc,omitempty"`
	// EmptyBlocks: blocks of length 0 are allowed (the ROACH source forwards a block even when its packets hold no samples)
	EmptyBlocks bool `json:"empty_blocks,omitempty"`
}

func vNoise(seed, i int) int {
	x := uint64(seed)*0x9e3779b97f4a7c15 + uint64(i)*0xbf58476d1ce4e5b9
	x ^= x >> 31
	x *= 0x94d049bb133111eb
	x ^= x >> 29
	return int(x >> 40)
}

// truth computes the ground-truth sample stream of every channel.
func (c *vPipeCase) truth() [][]RawType {
	n := 0
	for _, b := range c.Blocks {
		n += b
	}
	out := make([][]RawType, c.Nchan)
	for ch := 0; ch < c.Nchan; ch++ {
		s := c.Streams[ch]
		acc := make([]float64, n)
		for i := range acc {
			acc[i] = float64(s.Base)
			if s.Random {
				acc[i] = float64(vNoise(s.Seed, i) & 0xffff)
			} else if s.Noise > 0 {
				acc[i] += float64(vNoise(s.Seed, i)%(2*s.Noise+1) - s.Noise)
			}
		}
		for _, p := range c.Pulses {
			if p.Ch != ch {
				continue
			}
			L := p.Len
			if L < 1 {
				L = 1
			}
			for i := p.Pos; i < n; i++ {
				if i < 0 {
					continue
				}
				d := i - p.Pos
				switch p.Kind {
				case 0: // step lasting L samples
					if d < L {
						acc[i] += float64(p.Amp)
					}
				case 1: // ramp up over L samples then hold L samples
					if d < L {
						acc[i] += float64(p.Amp) * float64(d+1) / float64(L)
					} else if d < 2*L {
						acc[i] += float64(p.Amp)
					}
				case 2: // fast rise, exponential decay
					if d < 8*L {
						acc[i] += float64(p.Amp) * math.Exp(-float64(d)/float64(L))
					}
				case 3:
					if d == 0 {
						acc[i] += float64(p.Amp)
					}
				default: // two-sample rise then exponential decay
					if d == 0 {
						acc[i] += float64(p.Amp) / 2
					} else if d < 8*L {
						acc[i] += float64(p.Amp) * math.Exp(-float64(d-1)/float64(L))
					}
				}
			}
		}
		out[ch] = make([]RawType, n)
		for i := range acc {
			out[ch][i] = RawType(uint16(int64(math.Round(acc[i]))))
		}
	}
	return out
}

type vEmit struct {
	Block int
	Rec   *DataRecord
	Snap  []RawType // the record's samples as they were when it came off the publish channel
}

type vBlockInfo struct {
	Start   int       // index of the block's first sample in the truth stream
	Len     int
	Stamp   time.Time // firstTime given to the block
	Npre    int       // configured lengths while this block was processed
	Nsamp   int
	Trig    []vTrigCfg // per channel configuration while this block was processed (nil entry: never set, defaults)
	Epoch   []int      // per channel: truth index at which the current configuration epoch began
	Primary [][]FrameIndex // per channel: primary trigger frames handed to the broker in this cycle
	Conn    map[[2]int]bool // model of (source, receiver) pairs in force during this block
}

type vTrace struct {
	Truth  [][]RawType
	Blocks []vBlockInfo
	Emits  []vEmit
	T0     time.Time
	Period time.Duration
	ds     *AnySource
	Refused int // "trylengths" requests that were refused
}

// vPipeAfterOp, when set, is called after every history operation with the model connection set.
var vPipeAfterOp func(ds *AnySource, h vHistOp, conn map[[2]int]bool) *vVerdict

var vPipeT0 = time.Date(2024, 3, 1, 12, 0, 0, 0, time.UTC)

func (c *vPipeCase) valid() bool {
	if c.Nchan < 1 || c.Nchan > 8 || len(c.Streams) != c.Nchan || c.Npre < 3 || c.Nsamp < c.Npre+1 || c.Nsamp > 512 ||
		c.PeriodNs < 1 || len(c.Blocks) == 0 || c.F0 < 0 || (c.RateHz != 0 && (c.RateHz <= 0 || int64(math.Round(1e9/c.RateHz)) != c.PeriodNs)) {
		return false
	}
	total := 0
	for _, b := range c.Blocks {
		if b < 0 || (b == 0 && !c.EmptyBlocks) || b > 100000 {
			return false
		}
		total += b
	}
	if total > 400000 {
		return false
	}
	if len(c.JitterNs) != 0 && len(c.JitterNs) != len(c.Blocks) {
		return false
	}
	npre, nsamp := c.Npre, c.Nsamp
	cur := make([]vTrigCfg, c.Nchan)
	for _, r := range c.Restored {
		for _, ch := range r.Chans {
			if ch < 0 {
				return false
			}
		}
	}
	for _, h := range c.Hist {
		switch h.Kind {
		case "trylengths":
			if h.Npre < 3 || h.Nsamp < h.Npre+1 || h.Nsamp > 512 {
				return false
			}
			refused := false
			for _, t := range cur {
				if !t.emtValid(h.Npre, h.Nsamp) {
					refused = true
				}
			}
			if !refused {
				return false // the generator only offers lengths that must be refused
			}
		case "lengths":
			if h.Npre < 3 || h.Nsamp < h.Npre+1 || h.Nsamp > 512 {
				return false
			}
			npre, nsamp = h.Npre, h.Nsamp
			for _, t := range cur {
				if !t.emtValid(npre, nsamp) {
					return false
				}
			}
		case "trigger":
			if len(h.Chans) == 0 || !h.Trig.emtValid(npre, nsamp) {
				return false
			}
			for _, ch := range h.Chans {
				if ch < 0 || ch >= c.Nchan {
					return false
				}
				cur[ch] = h.Trig
			}
		}
	}
	return true
}

// vRunPipe feeds the case to a real AnySource.  observe (optional) is called after every block.
func vRunPipe(c *vPipeCase, observe func(tr *vTrace, k int, recs []*DataRecord) *vVerdict) (*vTrace, *vVerdict) {
	vDrainRecords()
	drain := vDrainRecords
	if c.SlowPub && len(c.Blocks) <= 60 { // (a marker round trip per block: not for the streams cut into hundreds of blocks)
		oldR, oldS := PubRecordsChan, PubSummariesChan
		PubRecordsChan, PubSummariesChan = make(chan []*DataRecord, 1), make(chan []*DataRecord, 1)
		var got []*DataRecord
		stopc, mark, gone := make(chan struct{}), make(chan struct{}), make(chan struct{})
		rc, sc := PubRecordsChan, PubSummariesChan // (this consumer must never look at the globals again: the next case replaces them)
		go func() {
			defer close(gone)
			for {
				select {
				case r := <-rc:
					if r == nil { // the harness' marker: everything sent before it has been taken
						mark <- struct{}{}
						continue
					}
					time.Sleep(150 * time.Microsecond)
					got = append(got, r...)
				case <-sc:
					time.Sleep(50 * time.Microsecond)
				case <-stopc:
					return
				}
			}
		}()
		defer func() {
			close(stopc)
			<-gone
			PubRecordsChan, PubSummariesChan = oldR, oldS
		}()
		drain = func() []*DataRecord {
			rc <- nil
			<-mark
			out := got
			got = nil
			return out
		}
	}
	tr := &vTrace{Truth: c.truth(), T0: vPipeT0, Period: time.Duration(c.PeriodNs)}
	ds := &AnySource{nchan: c.Nchan, name: "verif"}
	var rpc *SourceControl
	if c.ViaRPC && !c.Lancero {
		holder := newScripted(c.Nchan, time.Millisecond, 48) // only its embedded AnySource is used: it makes the source a DataSource for the RPC layer
		ds = &holder.AnySource
		ds.name = "verif"
		rpc = NewSourceControl()
		rpc.clientUpdates = clientMessageChan
		rpc.ActiveSource = holder
		rpc.isSourceActive = true
		rpc.status.Npresamp, rpc.status.Nsamples = c.Npre, c.Nsamp
		rpc.status.Running = true
		ds.sourceState = Active
	}
	// serveOne plays the core loop for one queued request
	serveOne := func() chan struct{} {
		done := make(chan struct{})
		go func() {
			defer close(done)
			select {
			case f := <-rpc.queuedRequests:
				f()
			case <-time.After(60 * time.Second):
			}
		}()
		return done
	}
	release := func(done chan struct{}) {
		select {
		case <-done:
		case rpc.queuedRequests <- func() {}:
			<-done
		}
	}
	var ls *LanceroSource
	if c.Lancero {
		ls = &LanceroSource{}
		ls.nchan, ls.name = c.Nchan, "verif"
		ds = &ls.AnySource
	}
	ds.sampleRate = 1e9 / float64(c.PeriodNs)
	if c.RateHz > 0 {
		ds.sampleRate = c.RateHz
	}
	ds.samplePeriod = time.Duration(c.PeriodNs)
	ds.voltsPerArb = make([]float32, c.Nchan) // per-channel scale as a hardware source would set it
	for ch := range ds.voltsPerArb {
		ds.voltsPerArb[ch] = float32(ch+1) * 0.25
	}
	tr.ds = ds
	if err := ds.PrepareChannels(); err != nil {
		f := vFailf("prepare", "PrepareChannels: %v", err)
		return tr, &f
	}
	viper.Reset()
	cur := make([]*vTrigCfg, c.Nchan)
	if len(c.Restored) > 0 {
		// the real path: settings saved by an earlier run are read from the configuration file
		fts := []FullTriggerState{}
		for _, r := range c.Restored {
			ts := r.Trig.state()
			fts = append(fts, FullTriggerState{ChannelIndices: append([]int(nil), r.Chans...), TriggerState: ts})
			for _, ch := range r.Chans {
				if ch < c.Nchan {
					t := r.Trig
					t.EMT = false // documented: edge-multi is not restored
					cur[ch] = &t
				}
			}
		}
		dir := os.Getenv("VERIF_WORK")
		if dir == "" {
			dir = os.TempDir()
		}
		fn := filepath.Join(dir, fmt.Sprintf("restored_%d.yaml", os.Getpid()))
		viper.Set("trigger", fts)
		if err := viper.WriteConfigAs(fn); err != nil {
			panic("harness: cannot write config: " + err.Error())
		}
		viper.Reset()
		viper.SetConfigFile(fn)
		if err := viper.ReadInConfig(); err != nil {
			panic("harness: cannot read config back: " + err.Error())
		}
		defer os.Remove(fn)
	}
	if err := ds.PrepareRun(c.Npre, c.Nsamp); err != nil {
		f := vFailf("prepare", "PrepareRun: %v", err)
		return tr, &f
	}
	defer func() {
		ds.numberWrittenTicker.Stop()
		ds.writingState.externalTriggerTicker.Stop()
		ds.writingState.dataDropTicker.Stop()
	}()
	npre, nsamp := c.Npre, c.Nsamp
	epoch := make([]int, c.Nchan)
	conn := map[[2]int]bool{}
	pos := 0
	hi := 0
	gapSum := int64(0)
	for k, blen := range c.Blocks {
		for _, rk := range c.Reports {
			if rk == k {
				ds.ComputeFullTriggerState()
				ds.ComputeGroupTriggerState()
				ds.ComputeWritingState()
			}
		}
		for ; hi < len(c.Hist) && c.Hist[hi].At <= k; hi++ {
			h := c.Hist[hi]
			switch h.Kind {
			case "trigger":
				fts := FullTriggerState{ChannelIndices: append([]int(nil), h.Chans...), TriggerState: h.Trig.state()}
				if fts.EdgeMulti { // what SourceControl.ConfigureTriggers does for the RPC compatibility fields
					st, err := fts.EMTBackwardCompatibleRPCFields.toEMTState()
					if err != nil {
						panic("harness: " + err.Error())
					}
					fts.EMTState = st
				}
				if rpc != nil {
					raw := FullTriggerState{ChannelIndices: append([]int(nil), h.Chans...), TriggerState: h.Trig.state()}
					done := serveOne()
					var ok bool
					err := rpc.ConfigureTriggers(&raw, &ok)
					release(done) // (a request refused before it was queued leaves the stand-in core loop waiting)
					if err != nil {
						f := vFailf("config-rejected", "valid trigger configuration %+v rejected by the ConfigureTriggers request: %v", h.Trig, err)
						return tr, &f
					}
				} else if err := ds.ChangeTriggerState(&fts); err != nil {
					f := vFailf("config-rejected", "valid trigger configuration %+v rejected: %v", h.Trig, err)
					return tr, &f
				}
				for _, ch := range h.Chans {
					t := h.Trig
					cur[ch] = &t
					epoch[ch] = pos
				}
			case "lengths":
				var lerr error
				if rpc != nil {
					done := serveOne()
					var ok bool
					lerr = rpc.ConfigurePulseLengths(SizeObject{Nsamp: h.Nsamp, Npre: h.Npre}, &ok)
					release(done) // answered without queueing (no change, or refused at once)?
				} else {
					lerr = ds.ConfigurePulseLengths(h.Nsamp, h.Npre)
				}
				if err := lerr; err != nil {
					f := vFailf("config-rejected", "valid pulse lengths %d/%d rejected: %v", h.Nsamp, h.Npre, err)
					return tr, &f
				}
				npre, nsamp = h.Npre, h.Nsamp
				for ch := range epoch {
					epoch[ch] = pos
				}
			case "trylengths":
				// lengths that (by the documented validity rule) some edge-multi channel cannot work with: the request must be
				// refused as a whole and then change nothing on any channel; were it accepted, it is an ordinary length change
				var terr error
				if rpc != nil {
					done := serveOne()
					var ok bool
					terr = rpc.ConfigurePulseLengths(SizeObject{Nsamp: h.Nsamp, Npre: h.Npre}, &ok)
					release(done)
				} else {
					terr = ds.ConfigurePulseLengths(h.Nsamp, h.Npre)
				}
				if err := terr; err == nil {
					npre, nsamp = h.Npre, h.Nsamp
					for ch := range epoch {
						epoch[ch] = pos
					}
				} else {
					tr.Refused++
				}
			case "connect", "disconnect":
				gts := GroupTriggerState{Connections: map[int][]int{h.Src: append([]int(nil), h.Rx...)}}
				ds.ChangeGroupTrigger(h.Kind == "connect", &gts)
				for _, rx := range h.Rx {
					if h.Src >= 0 && h.Src < c.Nchan && rx >= 0 && rx < c.Nchan && rx != h.Src {
						if h.Kind == "connect" {
							conn[[2]int{h.Src, rx}] = true
						} else {
							delete(conn, [2]int{h.Src, rx})
						}
					}
				}
			case "stopcoupling":
				// what the StopTriggerCoupling request does
				ds.StopTriggerCoupling()
				if ls != nil {
					ls.SetCoupling(NoCoupling)
				}
				conn = map[[2]int]bool{}
			case "coupling":
				if ls != nil {
					if err := ls.SetCoupling(CouplingStatus(h.Coupling)); err != nil {
						f := vFailf("coupling-rejected", "SetCoupling(%d): %v", h.Coupling, err)
						return tr, &f
					}
					for i := 0; i+1 < c.Nchan; i += 2 {
						delete(conn, [2]int{i, i + 1})
						delete(conn, [2]int{i + 1, i})
						if CouplingStatus(h.Coupling) == ErrToFB {
							conn[[2]int{i, i + 1}] = true
						} else if CouplingStatus(h.Coupling) == FBToErr {
							conn[[2]int{i + 1, i}] = true
						}
					}
				}
			}
			if vPipeAfterOp != nil {
				if f := vPipeAfterOp(ds, h, conn); f != nil {
					return tr, f
				}
			}
		}
		if k < len(c.Gaps) && c.Gaps[k] > 0 {
			gapSum += int64(c.Gaps[k])
		}
		stamp := tr.T0.Add(time.Duration(c.F0+int64(pos)+gapSum) * tr.Period)
		if len(c.JitterNs) > 0 {
			stamp = stamp.Add(time.Duration(c.JitterNs[k]))
		}
		bi := vBlockInfo{Start: pos, Len: blen, Stamp: stamp, Npre: npre, Nsamp: nsamp, Trig: make([]vTrigCfg, c.Nchan), Epoch: append([]int(nil), epoch...),
			Conn: map[[2]int]bool{}}
		for ch := range cur {
			if cur[ch] != nil {
				bi.Trig[ch] = *cur[ch]
			}
		}
		for p := range conn {
			bi.Conn[p] = true
		}
		block := &dataBlock{segments: make([]DataSegment, c.Nchan), nSamp: blen}
		for ch := 0; ch < c.Nchan; ch++ {
			raw := append([]RawType(nil), tr.Truth[ch][pos:pos+blen]...)
			block.segments[ch] = DataSegment{rawData: raw, signed: c.Streams[ch].Signed, framesPerSample: 1,
				firstFrameIndex: FrameIndex(c.F0 + int64(pos) + gapSum), firstTime: stamp, framePeriod: tr.Period,
				voltsPerArb: float32(ch+1) * 0.25}
		}
		if err := ds.ProcessSegments(block); err != nil {
			f := vFailf("process-error", "block %d: ProcessSegments: %v", k, err)
			return tr, &f
		}
		for ch, dsp := range ds.processors {
			bi.Primary = append(bi.Primary, append([]FrameIndex(nil), dsp.lastTrigList.frames...))
			_ = ch
		}
		tr.Blocks = append(tr.Blocks, bi)
		recs := drain()
		for _, r := range recs {
			tr.Emits = append(tr.Emits, vEmit{Block: k, Rec: r, Snap: append([]RawType(nil), r.data...)})
		}
		pos += blen
		if observe != nil {
			if f := observe(tr, k, recs); f != nil {
				return tr, f
			}
		}
	}
	// A published record belongs to its consumer (the publisher goroutine may serialise it much later): processing and
	// trimming of later blocks must not change it.
	for _, e := range tr.Emits {
		same := len(e.Rec.data) == len(e.Snap)
		for i := 0; same && i < len(e.Snap); i++ {
			same = e.Rec.data[i] == e.Snap[i]
		}
		if !same {
			f := vFailf("record-changed-after-publication", "the record of channel %d at frame %d, published while block %d was processed, holds other samples after the later blocks were processed (%v... then, %v... now)",
				e.Rec.channelIndex, e.Rec.trigFrame, e.Block, vHeadRaw(e.Snap), vHeadRaw(e.Rec.data))
			return tr, &f
		}
	}
	return tr, nil
}

func vHeadRaw(x []RawType) []RawType {
	if len(x) > 6 {
		return x[:6]
	}
	return x
}

// vCheckExcerpt is the C01 validity predicate for one record emitted while block k was processed.
func vCheckExcerpt(c *vPipeCase, tr *vTrace, k int, r *DataRecord) *vVerdict {
	bi := tr.Blocks[k]
	ch := r.channelIndex
	if ch < 0 || ch >= c.Nchan {
		f := vFailf("record-channel", "record carries channel index %d of %d", ch, c.Nchan)
		return &f
	}
	delivered := bi.Start + bi.Len
	g := int64(r.trigFrame) - c.F0
	pre, n := r.presamples, len(r.data)
	variable := bi.Trig[ch].EMT && bi.Trig[ch].EMTMode == 1
	if variable {
		if pre < 0 || pre > bi.Npre || n <= pre || n > bi.Nsamp {
			f := vFailf("record-lengths", "block %d ch %d: variable-length record has pre=%d len=%d, configured %d/%d", k, ch, pre, n, bi.Npre, bi.Nsamp)
			return &f
		}
	} else if pre != bi.Npre || n != bi.Nsamp {
		f := vFailf("record-lengths", "block %d ch %d: record has pre=%d len=%d, configured %d/%d", k, ch, pre, n, bi.Npre, bi.Nsamp)
		return &f
	}
	lo := g - int64(pre)
	if lo < 0 || lo+int64(n) > int64(delivered) {
		f := vFailf("record-range", "block %d ch %d: record at frame %d (stream index %d) with pre=%d len=%d reaches outside the %d samples delivered so far",
			k, ch, r.trigFrame, g, pre, n, delivered)
		return &f
	}
	for i := 0; i < n; i++ {
		if r.data[i] != tr.Truth[ch][int(lo)+i] {
			f := vFailf("record-samples", "block %d ch %d: record at frame %d (stream index %d, pre=%d): sample %d is %d, the source delivered %d",
				k, ch, r.trigFrame, g, pre, i, r.data[i], tr.Truth[ch][int(lo)+i])
			return &f
		}
	}
	// trigger time: what the block time stamps assign to sample g
	wantA := bi.Stamp.Add(time.Duration(g-int64(bi.Start)) * tr.Period) // extrapolated from the block being processed
	okTime := r.trigTime.Equal(wantA)
	if !okTime {
		for j := k; j >= 0; j-- { // or from the block that contains the sample
			bj := tr.Blocks[j]
			if int64(bj.Start) <= g && g < int64(bj.Start+bj.Len) {
				okTime = r.trigTime.Equal(bj.Stamp.Add(time.Duration(g-int64(bj.Start)) * tr.Period))
				break
			}
		}
	}
	if !okTime {
		f := vFailf("record-time", "block %d ch %d: record at frame %d has trigger time %v, the block stamps give %v", k, ch, r.trigFrame, r.trigTime.UTC(), wantA.UTC())
		return &f
	}
	if r.signed != c.Streams[ch].Signed {
		f := vFailf("record-label", "block %d ch %d: record signed=%v, channel signed=%v", k, ch, r.signed, c.Streams[ch].Signed)
		return &f
	}
	if r.voltsPerArb != float32(ch+1)*0.25 {
		f := vFailf("record-label", "block %d ch %d: voltsPerArb %v, channel has %v", k, ch, r.voltsPerArb, float32(ch+1)*0.25)
		return &f
	}
	wantPeriod := float32(1.0 / (1e9 / float64(c.PeriodNs)))
	if c.RateHz > 0 {
		wantPeriod = float32(1.0 / c.RateHz) // the record states the sample period, not the period rounded to whole nanoseconds
	}
	if r.sampPeriod != wantPeriod {
		f := vFailf("record-label", "block %d ch %d: sample period %v, want %v", k, ch, r.sampPeriod, wantPeriod)
		return &f
	}
	return nil
}

// ---------- generators ----------

func vGenPartition(t *rapid.T, npre, nsamp, total int) []int {
	var out []int
	mode := rapid.IntRange(0, 5).Draw(t, "partmode")
	left := total
	for left > 0 {
		var b int
		switch mode {
		case 0:
			b = 1
		case 1:
			b = rapid.IntRange(1, npre).Draw(t, "blk")
		case 2:
			b = rapid.IntRange(1, 3*nsamp).Draw(t, "blk")
		case 3:
			b = left
		case 4:
			b = rapid.SampledFrom([]int{nsamp, 2 * nsamp, nsamp + 1, nsamp - 1, 50, 100}).Draw(t, "blk")
		default:
			if rapid.Bool().Draw(t, "tiny") {
				b = rapid.IntRange(1, 4).Draw(t, "blk")
			} else {
				b = rapid.IntRange(nsamp, 4*nsamp).Draw(t, "blk")
			}
		}
		if b > left {
			b = left
		}
		if b < 1 {
			b = 1
		}
		out = append(out, b)
		left -= b
		if mode == 0 && len(out) > 600 { // keep all-1-sample partitions affordable
			out = append(out, left)
			left = 0
		}
	}
	if len(out) > 0 && out[len(out)-1] == 0 {
		out = out[:len(out)-1]
	}
	return out
}

func vGenF0(t *rapid.T) int64 {
	switch rapid.IntRange(0, 7).Draw(t, "f0class") {
	case 0:
		return 0
	case 1:
		return 1
	case 2:
		return rapid.Int64Range(1000, 1000000).Draw(t, "f0")
	case 3:
		return int64(1)<<31 + rapid.Int64Range(-600, 600).Draw(t, "f0d")
	case 4:
		return int64(1)<<32 + rapid.Int64Range(-600, 600).Draw(t, "f0d")
	case 5:
		return int64(1) << 40
	default:
		return rapid.Int64Range(0, 5000).Draw(t, "f0")
	}
}

func vGenStream(t *rapid.T) vStream {
	s := vStream{Signed: rapid.Bool().Draw(t, "signed"), Seed: rapid.IntRange(0, 1<<20).Draw(t, "seed")}
	switch rapid.IntRange(0, 9).Draw(t, "baseclass") {
	case 0:
		s.Base = 0
	case 1:
		s.Base = 65535
	case 2:
		s.Base = rapid.SampledFrom([]int{32767, 32768, 32760, 32775}).Draw(t, "base")
	case 3:
		s.Random = true
	default:
		s.Base = rapid.IntRange(0, 65535).Draw(t, "base")
	}
	if rapid.IntRange(0, 2).Draw(t, "hasnoise") == 0 {
		s.Noise = rapid.SampledFrom([]int{1, 2, 5, 30}).Draw(t, "noise")
	}
	return s
}

// vGenPulses places pulses preferentially around block boundaries.
func vGenPulses(t *rapid.T, nchan, nsamp int, blocks []int, maxPulses int) []vPulse {
	total := 0
	var bounds []int
	for _, b := range blocks {
		total += b
		bounds = append(bounds, total)
	}
	n := rapid.IntRange(0, maxPulses).Draw(t, "npulses")
	var out []vPulse
	for i := 0; i < n; i++ {
		p := vPulse{Ch: rapid.IntRange(0, nchan-1).Draw(t, "pch")}
		if len(bounds) > 1 && rapid.IntRange(0, 9).Draw(t, "nearboundary") < 6 {
			b := bounds[rapid.IntRange(0, len(bounds)-1).Draw(t, "bidx")]
			p.Pos = b + rapid.IntRange(-nsamp, nsamp).Draw(t, "boff")
		} else {
			p.Pos = rapid.IntRange(0, total).Draw(t, "ppos")
		}
		p.Kind = rapid.IntRange(0, 4).Draw(t, "pkind")
		p.Amp = rapid.SampledFrom([]int{1, -1}).Draw(t, "psign") * rapid.SampledFrom([]int{3, 20, 150, 1000, 9000, 40000}).Draw(t, "pamp")
		p.Len = rapid.SampledFrom([]int{1, 2, 3, 5, 10, 25}).Draw(t, "plen")
		out = append(out, p)
	}
	return out
}

func vGenTrig(t *rapid.T, npre, nsamp int, periodNs int64, allowEMT bool) vTrigCfg {
	var c vTrigCfg
	if allowEMT && rapid.IntRange(0, 3).Draw(t, "emt") == 0 {
		c.EMT = true
		c.EMTMode = rapid.IntRange(0, 2).Draw(t, "emtmode")
		c.EMTLevel = rapid.SampledFrom([]int{1, -1}).Draw(t, "emtsign") * rapid.SampledFrom([]int{1, 2, 10, 100, 1000, 20000}).Draw(t, "emtlevel")
		c.EMTNoZero = rapid.Bool().Draw(t, "emtnozero")
		if npre < 4 || nsamp-npre < 4 {
			c.EMTNoZero = true
		}
		maxm := nsamp - npre
		c.EMTNMono = rapid.IntRange(0, maxm).Draw(t, "emtnmono")
		if rapid.Bool().Draw(t, "emtsmallmono") && maxm >= 1 {
			c.EMTNMono = rapid.IntRange(1, minInt(3, maxm)).Draw(t, "emtnmono2")
		}
		return c
	}
	mask := rapid.IntRange(0, 7).Draw(t, "trigmask")
	c.Edge, c.Level, c.Auto = mask&1 != 0, mask&2 != 0, mask&4 != 0
	if c.Edge {
		switch rapid.IntRange(0, 2).Draw(t, "edgedir") {
		case 0:
			c.EdgeRising = true
		case 1:
			c.EdgeFalling = true
		default:
			c.EdgeRising, c.EdgeFalling = true, true
		}
		c.EdgeLevel = rapid.SampledFrom([]int{1, 5, 40, 300, 2000, 30000}).Draw(t, "edgelevel")
	}
	if c.Level {
		c.LevelRising = rapid.Bool().Draw(t, "levelrising")
		c.LevelLevel = rapid.SampledFrom([]int{0, 1, 100, 5000, 32767, 32768, 40000, 65535}).Draw(t, "levellevel")
		if rapid.Bool().Draw(t, "levelrand") {
			c.LevelLevel = rapid.IntRange(0, 65535).Draw(t, "levellevel2")
		}
	}
	if c.Auto {
		c.AutoDelayNs = periodNs * int64(rapid.SampledFrom([]int{0, 1, nsamp / 2, nsamp, nsamp + 1, 2 * nsamp, 3*nsamp + 7, 10 * nsamp}).Draw(t, "autodelay"))
		if rapid.IntRange(0, 3).Draw(t, "veto") == 0 {
			c.AutoVeto = rapid.SampledFrom([]int{1, 10, 200, 5000}).Draw(t, "autoveto")
		}
	}
	return c
}

func minInt(a, b int) int {
	if a < b {
		return a
	}
	return b
}

func vGenLengths(t *rapid.T) (npre, nsamp int) {
	switch rapid.IntRange(0, 5).Draw(t, "lenclass") {
	case 0:
		npre = 3
		nsamp = rapid.IntRange(4, 8).Draw(t, "nsamp")
	case 1:
		nsamp = rapid.IntRange(8, 64).Draw(t, "nsamp")
		npre = nsamp - 1
	default:
		nsamp = rapid.IntRange(5, 64).Draw(t, "nsamp")
		npre = rapid.IntRange(3, nsamp-1).Draw(t, "npre")
	}
	return
}
