//go:build verif

package dastard

// C16: status replay, configuration persistence and crash-safe save.
//  (a) replay: a generated history of status updates over ~20 topics (repeats, unchanged values) with
//      interleaved SENDALLs goes through the real RunClientUpdater; a SUB socket must receive, after every
//      SENDALL, exactly the latest message of every topic published so far.
//  (b) persistence: after the updater's own delayed save, a fresh start-up (the viper calls of
//      cmd/dastard's setupViper followed by the UnmarshalKey sequence of RunRPCServer/PrepareRun) must
//      yield the latest source configurations, record lengths, trigger settings and base path.
//  (c) crash: the save is run in a child process under strace, killed on entry to each file-system call
//      it makes in the config directory; the next start-up must load the complete old or new configuration.

import (
	"encoding/json"
	"fmt"
	"net"
	"os"
	"os/exec"
	"path/filepath"
	"reflect"
	"regexp"
	"sort"
	"strconv"
	"strings"
	"sync"
	"testing"
	"time"

	"github.com/pebbe/zmq4"
	"github.com/spf13/viper"
	"pgregory.net/rapid"
)

// ---------------------------------------------------------------------------------------------------
// deterministic values of the published structures

var c16Strings = []string{"/data", "/data/run 1", "/tmp/ü-dir", "relative/path", "C:\\data", "/a:b", "/with#hash", "x", "/data/2024-01-01", "/q'uote", "/d\"q", "10.1.2.3:4000",
	"127.0.0.1:1", "", "true", "null", "123", "~", "- dash", "{brace}", "a: b", " lead", "trail ", "yes", "0x1F", "1e3"}

type c16Rnd struct{ seed, n int }

func (r *c16Rnd) u() int          { r.n++; return vNoise(r.seed, r.n) }
func (r *c16Rnd) i(lo, hi int) int { return lo + r.u()%(hi-lo+1) }
func (r *c16Rnd) b() bool         { return r.u()%2 == 0 }
func (r *c16Rnd) f() float64 {
	return []float64{0, 1, -1, 0.5, 1e-3, 1234.5678, 1e9, 3.141592653589793, 1e-12, 65535, 0.1}[r.u()%11] * float64(1+r.u()%3)
}
func (r *c16Rnd) s() string {
	if r.u()%4 == 0 {
		return c16Strings[r.u()%len(c16Strings)]
	}
	return c16Strings[r.u()%12] // the plausible ones
}
func (r *c16Rnd) ints(maxn, lo, hi int) []int {
	n := r.i(0, maxn)
	out := make([]int, n)
	for k := range out {
		out[k] = r.i(lo, hi)
	}
	return out
}
func (r *c16Rnd) floats(maxn int) []float64 {
	n := r.i(0, maxn)
	out := make([]float64, n)
	for k := range out {
		out[k] = r.f()
	}
	return out
}
func (r *c16Rnd) strs(maxn int) []string {
	n := r.i(0, maxn)
	out := make([]string, n)
	for k := range out {
		out[k] = r.s()
	}
	return out
}

type c16Topic struct {
	tag     string
	persist bool                  // restored at start-up and named in the property
	make    func(r *c16Rnd) any   // the state object as the server publishes it
	load    func() (any, error)   // what start-up reads back (nil: not compared)
	project func(v any) any       // the part of the published value that start-up must reproduce
}

func c16Unwrap(r *c16Rnd) AbacoUnwrapOptions {
	o := AbacoUnwrapOptions{RescaleRaw: r.b(), Bias: r.b(), ResetAfter: []int{0, 0, 1, 20000, r.i(0, 40000)}[r.u()%5], PulseSign: []int{1, -1, 0}[r.u()%3], InvertChan: r.ints(4, 0, 500)}
	o.Unwrap = o.RescaleRaw && r.b()
	return o
}

func c16TS(r *c16Rnd) TriggerState {
	ts := TriggerState{AutoTrigger: r.b(), AutoDelay: time.Duration(r.i(0, 2000000)) * time.Microsecond, AutoVetoRange: RawType(r.i(0, 65535)),
		LevelTrigger: r.b(), LevelRising: r.b(), LevelLevel: RawType(r.i(0, 65535)), EdgeTrigger: r.b(), EdgeRising: r.b(), EdgeFalling: r.b(), EdgeLevel: int32(r.i(-70000, 70000))}
	ts.EdgeMultiLevel = int32(r.i(-500, 500))
	ts.EdgeMultiVerifyNMonotone = r.i(0, 10)
	ts.EdgeMultiNoise, ts.EdgeMultiMakeShortRecords, ts.EdgeMultiMakeContaminatedRecords, ts.EdgeMultiDisableZeroThreshold = r.b(), r.b(), r.b(), r.b()
	return ts
}

var c16Topics = []c16Topic{
	{tag: "SIMPULSE", persist: true, make: func(r *c16Rnd) any {
		// configurations the source accepts (start-up deliberately panics on a saved simulated-source configuration it cannot apply)
		return &SimPulseSourceConfig{Nchan: r.i(1, 64), SampleRate: []float64{10000, 1e5, 250000.5}[r.u()%3], Pedestal: r.f(), Amplitudes: r.floats(4), Nsamp: r.i(1, 5000)}
	}, load: func() (any, error) {
		var c SimPulseSourceConfig
		c.SampleRate = 1000.0
		err := viper.UnmarshalKey("simpulse", &c)
		return &c, err
	}},
	{tag: "TRIANGLE", persist: true, make: func(r *c16Rnd) any {
		mn := r.i(0, 64000)
		return &TriangleSourceConfig{Nchan: r.i(1, 64), SampleRate: []float64{1000, 12345.678, 1e5}[r.u()%3], Min: RawType(mn), Max: RawType(mn + r.i(0, 1000))}
	}, load: func() (any, error) {
		var c TriangleSourceConfig
		c.SampleRate = 1000.0
		err := viper.UnmarshalKey("triangle", &c)
		return &c, err
	}},
	{tag: "LANCERO", persist: true, make: func(r *c16Rnd) any {
		c := &LanceroSourceConfig{FiberMask: uint32(r.u())<<16 | uint32(r.u()&0xffff), CardDelay: r.ints(3, 0, 30), ActiveCards: r.ints(3, 0, 5), ShouldAutoRestart: r.b(),
			FirstRow: r.i(-2, 1000), ChanSepCards: r.i(0, 2000), ChanSepColumns: r.i(0, 64)}
		c.DastardOutput = LanceroDastardOutputJSON{Nsamp: r.i(1, 16), ClockMHz: 125, AvailableCards: r.ints(3, 0, 5), Lsync: r.i(1, 400), Settle: r.i(0, 99), SequenceLength: r.i(1, 64), PropagationDelay: r.i(0, 9), BAD16CardDelay: r.i(0, 9)}
		return c
	}, load: func() (any, error) {
		var c LanceroSourceConfig
		err := viper.UnmarshalKey("lancero", &c)
		return &c, err
	}},
	{tag: "ABACO", persist: true, make: func(r *c16Rnd) any {
		return &AbacoSourceConfig{ActiveCards: r.ints(3, 0, 3), AvailableCards: r.ints(3, 0, 3), HostPortUDP: r.strs(3), AbacoUnwrapOptions: c16Unwrap(r)}
	}, load: func() (any, error) {
		var c AbacoSourceConfig
		c.AbacoUnwrapOptions.Unwrap = true
		c.AbacoUnwrapOptions.ResetAfter = 20000
		err := viper.UnmarshalKey("abaco", &c)
		return &c, err
	}},
	{tag: "ROACH", persist: true, make: func(r *c16Rnd) any {
		hp := r.strs(3)
		if r.u()%3 == 0 {
			// an address the next start-up can really bind (a UDP port of this shard's own range): the device is created there
			shard, _ := strconv.Atoi(os.Getenv("VERIF_SHARD"))
			hp = []string{fmt.Sprintf("127.0.0.1:%d", 28000+(shard%64)*20+r.i(0, 19))}
		}
		rates := make([]float64, len(hp)) // one rate per address, as Configure demands
		for k := range rates {
			rates[k] = r.f() + 1
			if r.u()%2 == 0 {
				rates[k] = []float64{689500, 1e6, 488281.25, 123456.7, 2e6 / 3}[r.u()%5]
			}
		}
		return &RoachSourceConfig{HostPort: hp, Rates: rates, AbacoUnwrapOptions: c16Unwrap(r)}
	}, load: func() (any, error) {
		var c RoachSourceConfig
		err := viper.UnmarshalKey("roach", &c)
		return &c, err
	}},
	{tag: "STATUS", persist: true, make: func(r *c16Rnd) any {
		npre := r.i(1, 5000)
		return ServerStatus{Running: r.b(), SourceName: r.s(), Nchannels: r.i(0, 5000), Npresamp: npre, Nsamples: npre + r.i(1, 20000), SamplePeriod: time.Duration(r.i(1, 1000000)) * time.Nanosecond,
			ChanGroups: []GroupIndex{{Firstchan: r.i(0, 100), Nchan: r.i(1, 64)}}, ChannelsWithProjectors: r.ints(4, 0, 100)}
	}, load: func() (any, error) {
		var s ServerStatus
		err := viper.UnmarshalKey("status", &s)
		return map[string]int{"Npresamp": s.Npresamp, "Nsamples": s.Nsamples}, err
	}, project: func(v any) any {
		s := v.(ServerStatus)
		return map[string]int{"Npresamp": s.Npresamp, "Nsamples": s.Nsamples}
	}},
	{tag: "TRIGGER", persist: true, make: func(r *c16Rnd) any {
		n := r.i(1, 3)
		out := []FullTriggerState{}
		next := 0
		if r.u()%8 == 0 { // a large array: thousands of channels share one setting (a message of tens of kilobytes)
			idx := make([]int, 2000+r.i(0, 2000))
			for k := range idx {
				idx[k] = k
			}
			out = append(out, FullTriggerState{ChannelIndices: idx, TriggerState: c16TS(r)})
			next = len(idx)
		}
		for k := 0; k < n; k++ {
			var idx []int
			for q := r.i(1, 4); q > 0; q-- {
				idx = append(idx, next)
				next += r.i(1, 3)
			}
			out = append(out, FullTriggerState{ChannelIndices: idx, TriggerState: c16TS(r)})
		}
		return out
	}, load: func() (any, error) {
		var fts []FullTriggerState
		err := viper.UnmarshalKey("trigger", &fts)
		return fts, err
	}},
	{tag: "WRITING", persist: true, make: func(r *c16Rnd) any {
		ws := &WritingState{Active: r.b(), Paused: r.b(), BasePath: r.s(), FilenamePattern: r.s(), WriteLJH22: r.b(), WriteOFF: r.b(), WriteLJH3: r.b(), ExperimentStateLabel: r.s()}
		return &ws // the server publishes a pointer to the pointer it got from ComputeWritingState
	}, load: func() (any, error) {
		var ws WritingState
		err := viper.UnmarshalKey("writing", &ws)
		return ws.BasePath, err
	}, project: func(v any) any { return (*v.(**WritingState)).BasePath }},
	{tag: "TESMAPFILE", make: func(r *c16Rnd) any { return r.s() }},
	{tag: "GROUPTRIGGER", make: func(r *c16Rnd) any {
		g := GroupTriggerState{Connections: map[int][]int{}}
		for k := r.i(0, 3); k > 0; k-- {
			g.Connections[r.i(0, 20)] = r.ints(3, 0, 20)
		}
		return g
	}},
	{tag: "TRIGCOUPLING", make: func(r *c16Rnd) any { return CouplingStatus(r.i(1, 3)) }},
	{tag: "MIX", make: func(r *c16Rnd) any {
		if r.u()%4 == 0 { // a large array
			mix := make([]float64, 2000+r.i(0, 3000))
			for k := range mix {
				mix[k] = float64(r.i(0, 1000)) / 8
			}
			return mix
		}
		return r.floats(6)
	}},
	{tag: "CHANNELNAMES", make: func(r *c16Rnd) any {
		if r.u()%4 == 0 { // a large array
			names := make([]string, 1500+r.i(0, 2500))
			for k := range names {
				names[k] = fmt.Sprintf("chan%d", k+r.i(0, 3))
			}
			return names
		}
		return r.strs(5)
	}},
	{tag: "ALIVE", make: func(r *c16Rnd) any { return Heartbeat{Running: r.b(), Time: r.f(), HWactualMB: r.f(), DataMB: r.f()} }},
	{tag: "TRIGGERRATE", make: func(r *c16Rnd) any {
		return TriggerRateMessage{HiTime: vPipeT0.Add(time.Duration(r.i(0, 1000)) * time.Second), Duration: time.Second, CountsSeen: r.ints(4, 0, 1000)}
	}},
	{tag: "NUMBERWRITTEN", make: func(r *c16Rnd) any { return struct{ NumberWritten []int }{r.ints(4, 0, 100000)} }},
	{tag: "EXTERNALTRIGGER", make: func(r *c16Rnd) any { return struct{ NumberObservedInLastSecond int }{r.i(0, 100000)} }},
	{tag: "STATELABEL", make: func(r *c16Rnd) any { return r.s() }},
	{tag: "DATADROP", make: func(r *c16Rnd) any { return struct{ TotalObserved int }{r.i(0, 1000)} }},
	{tag: "RAWDATABLOCK", make: func(r *c16Rnd) any { return r.s() }},
	{tag: "TESMAP", make: func(r *c16Rnd) any { return "no map loaded " + r.s() }},
}

func c16Value(seed, topic, variant int) any {
	return c16Topics[topic].make(&c16Rnd{seed: seed*7919 + topic*131 + variant})
}

// c16Canon renders a value as canonical JSON in which nil and empty slices/maps are the same thing.
func c16Canon(v any) string {
	b, err := json.Marshal(v)
	if err != nil {
		return "unmarshalable: " + err.Error()
	}
	var x any
	json.Unmarshal(b, &x)
	var walk func(x any) any
	walk = func(x any) any {
		switch t := x.(type) {
		case map[string]any:
			for k, e := range t {
				w := walk(e)
				if w == nil {
					delete(t, k)
				} else {
					t[k] = w
				}
			}
			if len(t) == 0 {
				return nil
			}
			return t
		case []any:
			if len(t) == 0 {
				return nil
			}
			for i := range t {
				t[i] = walk(t[i])
			}
			return t
		}
		return x
	}
	out, _ := json.Marshal(walk(x))
	return string(out)
}

// ---------------------------------------------------------------------------------------------------
// start-up as cmd/dastard does it

// c16RealSetup runs the real setupViper() of cmd/dastard (a child process of that package's test binary) on the home directory.
// It returns "" when that succeeded or when the binary is not available.
func c16RealSetup(home string) string {
	bin := os.Getenv("VERIF_C16_MAINBIN")
	if bin == "" {
		return ""
	}
	if _, err := os.Stat(bin); err != nil {
		return ""
	}
	cwd := filepath.Join(home, "cwd")
	os.MkdirAll(cwd, 0o755)
	cmd := exec.Command(bin, "-test.run", "^$")
	cmd.Dir = cwd
	cmd.Env = append(os.Environ(), "VERIF_C16_SETUP="+home, "HOME="+home)
	out, err := cmd.CombinedOutput()
	if err != nil && strings.Contains(string(out), "SETUP-ERROR:") {
		return strings.TrimSpace(string(out))
	}
	if err != nil && !strings.Contains(string(out), "SETUP-OK") {
		return fmt.Sprintf("the start-up code ended with %v: %s", err, strings.TrimSpace(string(out)))
	}
	return ""
}

// c16SetupViper repeats the viper calls of cmd/dastard's setupViper (with HOME already pointing at home).
func c16SetupViper(home string) error {
	viper.Reset()
	viper.SetDefault("Verbose", false)
	dot := filepath.Join(home, ".dastard")
	if err := os.MkdirAll(dot, 0o775); err != nil {
		return err
	}
	full := filepath.Join(dot, "config.yaml")
	if _, err := os.Stat(full); os.IsNotExist(err) { // makeFileExist: create an empty file
		f, err := os.OpenFile(full, os.O_WRONLY|os.O_CREATE, 0o664)
		if err != nil {
			return err
		}
		f.Close()
	}
	viper.SetConfigName("config")
	viper.AddConfigPath(filepath.FromSlash("/etc/dastard"))
	viper.AddConfigPath(dot)
	viper.AddConfigPath(".")
	return viper.ReadInConfig()
}

// c16Compare loads every persistent topic the way start-up does and compares with want (topic index -> published value).
func c16Compare(want map[int]any) string {
	idx := make([]int, 0, len(want))
	for ti := range want {
		idx = append(idx, ti)
	}
	sort.Ints(idx)
	for _, ti := range idx {
		tp := c16Topics[ti]
		if !tp.persist || tp.load == nil {
			continue
		}
		got, err := tp.load()
		if err != nil {
			return fmt.Sprintf("start-up cannot read back %s: %v", tp.tag, err)
		}
		w := want[ti]
		if tp.project != nil {
			w = tp.project(w)
		}
		if g, ws := c16Canon(got), c16Canon(w); g != ws {
			return fmt.Sprintf("%s read back at start-up as %s, last published %s", tp.tag, g, ws)
		}
	}
	// the restored trigger settings must also reach the channels they were saved for (PrepareRun's restore path)
	for _, ti := range idx {
		if c16Topics[ti].tag != "TRIGGER" {
			continue
		}
		fts := want[ti].([]FullTriggerState)
		nchan := 0
		for _, f := range fts {
			for _, ch := range f.ChannelIndices {
				if ch+1 > nchan {
					nchan = ch + 1
				}
			}
		}
		ds := &AnySource{nchan: nchan + 1, name: "verif"} // one more channel than was saved: it must get the defaults
		ds.sampleRate, ds.samplePeriod = 1e5, 10*time.Microsecond
		if err := ds.PrepareChannels(); err != nil {
			return "PrepareChannels: " + err.Error()
		}
		if err := ds.PrepareRun(10, 20); err != nil {
			return "PrepareRun with the restored configuration: " + err.Error()
		}
		ds.numberWrittenTicker.Stop()
		ds.writingState.externalTriggerTicker.Stop()
		ds.writingState.dataDropTicker.Stop()
		for _, f := range fts {
			w := f.TriggerState
			w.EdgeMulti = false
			for _, ch := range f.ChannelIndices {
				g := ds.processors[ch].TriggerState
				if gs, ws := c16Canon(g), c16Canon(w); gs != ws {
					return fmt.Sprintf("channel %d starts the next run with trigger settings %s, the saved settings for it were %s", ch, gs, ws)
				}
			}
		}
		if g := ds.processors[nchan].TriggerState; g.AutoTrigger || g.EdgeTrigger || g.LevelTrigger || g.EdgeMulti {
			return fmt.Sprintf("channel %d was not in the saved trigger settings but starts with triggers enabled: %s", nchan, c16Canon(g))
		}
	}
	return ""
}

// ---------------------------------------------------------------------------------------------------
// (a)+(b): replay and persistence through the real RunClientUpdater

type c16Op struct {
	Kind    string `json:"kind"` // pub sendall
	Topic   int    `json:"topic,omitempty"`
	Variant int    `json:"variant,omitempty"`
}

type c16Case struct {
	Seed    int     `json:"seed"`
	Ops     []c16Op `json:"ops"`
	Persist bool    `json:"persist"` // wait for the updater's save and read the configuration back
}

var c16Counter int

func c16Gen(t *rapid.T) c16Case {
	c := c16Case{Seed: rapid.IntRange(0, 1<<20).Draw(t, "seed"), Persist: rapid.IntRange(0, 2).Draw(t, "persist") == 0}
	n := rapid.IntRange(1, 30).Draw(t, "nops")
	ntop := rapid.SampledFrom([]int{3, 8, len(c16Topics)}).Draw(t, "ntopics")
	perm := rapid.Permutation(func() []int {
		x := make([]int, len(c16Topics))
		for i := range x {
			x[i] = i
		}
		return x
	}()).Draw(t, "topics")[:ntop]
	for i := 0; i < n; i++ {
		if rapid.IntRange(0, 5).Draw(t, "sendall") == 0 {
			c.Ops = append(c.Ops, c16Op{Kind: "sendall"})
			continue
		}
		c.Ops = append(c.Ops, c16Op{Kind: "pub", Topic: perm[rapid.IntRange(0, ntop-1).Draw(t, "topic")], Variant: rapid.IntRange(0, 2).Draw(t, "variant")})
	}
	c.Ops = append(c.Ops, c16Op{Kind: "sendall"})
	return c
}

func c16Run(c c16Case) (v vVerdict) {
	for _, op := range c.Ops {
		if op.Kind == "pub" && (op.Topic < 0 || op.Topic >= len(c16Topics)) {
			return v
		}
	}
	c16Counter++
	work := os.Getenv("VERIF_WORK")
	if work == "" {
		work = os.TempDir()
	}
	home := filepath.Join(work, fmt.Sprintf("c16home_%d_%d", os.Getpid(), c16Counter))
	os.RemoveAll(home)
	defer os.RemoveAll(home)
	if err := c16SetupViper(home); err != nil {
		return vFailf("harness", "setup: %v", err)
	}
	cfgFile := viper.ConfigFileUsed()
	shard, _ := strconv.Atoi(os.Getenv("VERIF_SHARD"))
	port := 0
	for try := 0; try < 50 && port == 0; try++ { // RunClientUpdater panics if it cannot bind: make sure the port is free
		cand := 20000 + (shard%64)*180 + (os.Getpid()*7+c16Counter*7+try)%80 // all below the ephemeral range (32768+); the start-up child uses cand+90..cand+94
		if l, err := net.Listen("tcp", fmt.Sprintf(":%d", cand)); err == nil {
			l.Close()
			port = cand
		}
	}
	if port == 0 {
		return vVerdict{Inconclusive: "no free port for the status publisher"}
	}
	abort := make(chan struct{})
	finished := make(chan struct{})
	go func() {
		defer close(finished)
		RunClientUpdater(port, abort)
	}()
	stop := func() {
		close(abort)
		select {
		case <-finished:
		case <-time.After(5 * time.Second):
		}
	}
	sub, err := zmq4.NewSocket(zmq4.SUB)
	if err != nil {
		stop()
		return vVerdict{Inconclusive: "zmq: " + err.Error()}
	}
	defer sub.Close()
	sub.SetLinger(0)
	sub.SetRcvhwm(100000)
	sub.SetSubscribe("")
	if err := sub.Connect(fmt.Sprintf("tcp://127.0.0.1:%d", port)); err != nil {
		stop()
		return vVerdict{Inconclusive: "zmq connect: " + err.Error()}
	}
	// handshake with NEWDASTARD probes: published to clients, never remembered (documented as carrying no state)
	probeN := 0
	probe := func() string {
		probeN++
		s := fmt.Sprintf("probe-%d-%d", c16Counter, probeN)
		clientMessageChan <- ClientUpdate{"NEWDASTARD", s}
		return s
	}
	recvUntil := func(marker string, patience time.Duration) ([][2]string, bool) {
		var out [][2]string
		deadline := time.Now().Add(patience)
		for time.Now().Before(deadline) {
			sub.SetRcvtimeo(100 * time.Millisecond)
			m, err := sub.RecvMessage(0)
			if err != nil || len(m) != 2 {
				continue
			}
			if m[0] == "NEWDASTARD" {
				if m[1] == strconv.Quote(marker) {
					return out, true
				}
				continue
			}
			out = append(out, [2]string{m[0], m[1]})
		}
		return out, false
	}
	ok := false
	for try := 0; try < 100 && !ok; try++ {
		_, ok = recvUntil(probe(), 150*time.Millisecond)
	}
	if !ok {
		stop()
		return vVerdict{Inconclusive: "status subscriber handshake timed out"}
	}
	// the history
	latest := map[int]any{}      // topic -> last published value
	latestJSON := map[int]string{}
	changed := false
	sendalls := 0
	sendallCheck := func(i int) *vVerdict {
	// SENDALL: first drain the live copies of what was published so far, then ask for the replay
		if _, ok := recvUntil(probe(), 10*time.Second); !ok {
			stop()
			return &vVerdict{Inconclusive: "lost the end-of-history marker"}
		}
		clientMessageChan <- ClientUpdate{"SENDALL", 0}
		got, ok := recvUntil(probe(), 10*time.Second)
		if !ok {
			stop()
			return &vVerdict{Inconclusive: "lost the end-of-replay marker"}
		}
		sendalls++
		seen := map[string]int{}
		for _, m := range got {
			seen[m[0]]++
			ti := -1
			for k := range c16Topics {
				if c16Topics[k].tag == m[0] {
					ti = k
				}
			}
			want, pub := latestJSON[ti]
			if ti < 0 || !pub {
				stop()
				f := vFailf("replay-extra", "op %d: SENDALL replayed a %s message although that topic was never published in this run: %s", i, m[0], vTrim(m[1], 200))
				return &f
			}
			if m[1] != want {
				stop()
				f := vFailf("replay-stale", "op %d: SENDALL replayed %s = %s, the most recent message of that topic was %s", i, m[0], vTrim(m[1], 300), vTrim(want, 300))
				return &f
			}
		}
		for ti := range latestJSON {
			tag := c16Topics[ti].tag
			if seen[tag] == 0 {
				stop()
				f := vFailf("replay-missing", "op %d: SENDALL did not replay topic %s (published earlier in this run; %d topics replayed)", i, tag, len(seen))
				return &f
			}
			if seen[tag] > 1 {
				stop()
				f := vFailf("replay-duplicate", "op %d: SENDALL replayed topic %s %d times", i, tag, seen[tag])
				return &f
			}
		}
		return nil
	}
	for i, op := range c.Ops {
		if op.Kind == "pub" {
			val := c16Value(c.Seed, op.Topic, op.Variant)
			b, err := json.Marshal(val)
			if err != nil {
				stop()
				return vFailf("harness", "value not JSON-able: %v", err)
			}
			clientMessageChan <- ClientUpdate{c16Topics[op.Topic].tag, val}
			if prev, seen := latestJSON[op.Topic]; seen && prev != string(b) {
				changed = true
			}
			latest[op.Topic] = val
			latestJSON[op.Topic] = string(b)
			continue
		}
		if f := sendallCheck(i); f != nil {
			return *f
		}
	}
	persisted := 0
	for ti := range latest {
		if c16Topics[ti].persist {
			persisted++
		}
	}
	if c.Persist && len(latest) > 0 {
		// the updater saves 2 s after the last change of a saved topic; wait for the file to appear
		deadline := time.Now().Add(8 * time.Second)
		saved := false
		// a running source keeps publishing topics that are never saved (trigger rates every second, heart beats...): in half of
		// the cases such traffic goes on while the save is awaited - it must not put the save off
		traffic := c.Seed%2 == 0
		trafficTopic := -1
		for k := range c16Topics {
			if c16Topics[k].tag == "TRIGGERRATE" {
				trafficTopic = k
			}
		}
		for it := 0; time.Now().Before(deadline); it++ {
			if b, err := os.ReadFile(cfgFile); err == nil && strings.Contains(string(b), "currenttime") {
				saved = true
				break
			}
			if traffic && trafficTopic >= 0 && it%5 == 0 {
				val := c16Value(c.Seed+it, trafficTopic, it)
				if jb, err := json.Marshal(val); err == nil {
					clientMessageChan <- ClientUpdate{c16Topics[trafficTopic].tag, val}
					latest[trafficTopic] = val
					latestJSON[trafficTopic] = string(jb)
				}
			}
			time.Sleep(50 * time.Millisecond)
		}
		if traffic {
			v.Classes = append(v.Classes, "unsaved-topics-changing-while-the-save-is-due")
		}
		if saved {
			// a save must not disturb what a later SENDALL replays
			if f := sendallCheck(len(c.Ops)); f != nil {
				return *f
			}
			v.Classes = append(v.Classes, "sendall-after-save")
		}
		stop()
		savedTopics := 0
		for ti := range latest {
			if _, nosave := nosaveMessages[strings.ToLower(c16Topics[ti].tag)]; !nosave {
				savedTopics++
			}
		}
		if !saved {
			if savedTopics > 0 {
				if vStarved(20 * time.Second) {
					return vVerdict{Inconclusive: "no save within 8 s, but this process was not scheduled for most of a second meanwhile (overloaded machine)"}
				}
				return vFailf("not-saved", "no configuration was saved within 8 s of the last status change (%d saveable topics published)", savedTopics)
			}
		} else {
			time.Sleep(20 * time.Millisecond) // the rename sequence of the save
			if err := c16SetupViper(home); err != nil {
				return vFailf("config-unreadable", "next start-up cannot read the saved configuration: %v", err)
			}
			if msg := c16Compare(latest); msg != "" {
				return vFailf("persist-differs", "%s", msg)
			}
			if msg := c16StartupCompare(home, port+90, latest); msg != "" {
				return vFailf("startup-differs", "%s", msg)
			}
			v.Classes = append(v.Classes, "persistence-checked")
		}
	} else {
		stop()
	}
	v.NonTrivial = len(latest) >= 3 && changed && sendalls >= 2
	if changed {
		v.Classes = append(v.Classes, "value-changed")
	}
	if persisted > 0 {
		v.Classes = append(v.Classes, "persistent-topic")
	}
	return v
}

func TestVerif_C16(t *testing.T) {
	if os.Getenv("VERIF_C16_CHILD") != "" {
		return
	}
	vCheck(t, "C16", c16Gen, c16Run)
}

// ---------------------------------------------------------------------------------------------------
// (c): crash-safe save

type c16CrashCase struct {
	Seed   int   `json:"seed"`
	Topics []int `json:"topics"` // persistent topics present in both generations
	Old    int   `json:"old"`    // variant saved first
	New    int   `json:"new"`    // variant being saved when the process is killed
}

func c16CrashGen(t *rapid.T) c16CrashCase {
	c := c16CrashCase{Seed: rapid.IntRange(0, 1<<20).Draw(t, "seed"), Old: rapid.IntRange(0, 2).Draw(t, "old")}
	c.New = (c.Old + rapid.IntRange(1, 2).Draw(t, "newdelta")) % 3
	var pers []int
	for i, tp := range c16Topics {
		if tp.persist {
			pers = append(pers, i)
		}
	}
	n := rapid.IntRange(1, len(pers)).Draw(t, "ntopics")
	c.Topics = rapid.Permutation(pers).Draw(t, "topics")[:n]
	sort.Ints(c.Topics)
	return c
}

func c16Messages(c c16CrashCase, variant int) (map[string]interface{}, map[int]any) {
	m := map[string]interface{}{}
	w := map[int]any{}
	for _, ti := range c.Topics {
		val := c16Value(c.Seed, ti, variant)
		m[c16Topics[ti].tag] = val
		w[ti] = val
	}
	return m, w
}

// c16ChildMain is what the child process does: start up on HOME, then save once.
func c16ChildMain() {
	var spec struct {
		Home string       `json:"home"`
		Case c16CrashCase `json:"case"`
		Var  int          `json:"variant"`
		// start-up mode
		Startup string `json:"startup"`
		Port    int    `json:"port"`
	}
	b, err := os.ReadFile(os.Getenv("VERIF_C16_CHILD"))
	if err != nil || json.Unmarshal(b, &spec) != nil {
		os.Exit(3)
	}
	if err := c16SetupViper(spec.Home); err != nil {
		os.Exit(4)
	}
	if spec.Startup != "" {
		// the real start-up: RunRPCServer restores the saved configuration and announces it to clients
		got := map[string]json.RawMessage{}
		var mu sync.Mutex
		go func() {
			for u := range clientMessageChan {
				if b, err := json.Marshal(u.state); err == nil {
					mu.Lock()
					got[u.tag] = b
					mu.Unlock()
				}
			}
		}()
		RunRPCServer(spec.Port, false)
		time.Sleep(200 * time.Millisecond)
		mu.Lock()
		b, _ := json.Marshal(got)
		mu.Unlock()
		os.WriteFile(spec.Startup, b, 0o644)
		os.Exit(0)
	}
	m, _ := c16Messages(spec.Case, spec.Var)
	saveState(m)
	os.Exit(0)
}

// c16StartupCompare runs the real start-up in a child process on home and compares what it restores and announces
// (source configurations, record lengths, base path) with the last published values.
func c16StartupCompare(home string, port int, want map[int]any) string {
	self, err := os.Executable()
	if err != nil {
		return ""
	}
	dir := filepath.Dir(home)
	spec := filepath.Join(dir, fmt.Sprintf("startup_spec_%d.json", os.Getpid()))
	outf := filepath.Join(dir, fmt.Sprintf("startup_out_%d.json", os.Getpid()))
	os.Remove(outf)
	b, _ := json.Marshal(map[string]any{"home": home, "startup": outf, "port": port})
	os.WriteFile(spec, b, 0o644)
	defer os.Remove(spec)
	defer os.Remove(outf)
	cmd := exec.Command(self, "-test.run", "^TestVerif_C16Child$")
	cmd.Env = append(os.Environ(), "VERIF_C16_CHILD="+spec, "HOME="+home, "VERIF_REPLAY=", "VERIF_OUT=")
	out, err := cmd.CombinedOutput()
	ob, rerr := os.ReadFile(outf)
	if err != nil || rerr != nil {
		if strings.Contains(string(out), "bind: address already in use") {
			return "" // the child could not get its ports (somebody else's socket): not judged
		}
		if strings.Contains(string(out), "panic:") {
			return "the next start-up crashed on the saved configuration: " + vTrim(string(out[strings.Index(string(out), "panic:"):]), 600)
		}
		return "" // could not run the child: not judged
	}
	var got map[string]json.RawMessage
	if json.Unmarshal(ob, &got) != nil {
		return ""
	}
	canonRaw := func(r json.RawMessage) any {
		var x any
		json.Unmarshal(r, &x)
		return x
	}
	sortedSet := func(x any) any {
		l, _ := x.([]any)
		seen := map[string]bool{}
		var out []string
		for _, e := range l {
			k := fmt.Sprint(e)
			if !seen[k] {
				seen[k] = true
				out = append(out, k)
			}
		}
		sort.Strings(out)
		return out
	}
	for ti, w := range want {
		tag := c16Topics[ti].tag
		g, ok := got[tag]
		var wj any
		wb, _ := json.Marshal(w)
		json.Unmarshal(wb, &wj)
		gj := canonRaw(g)
		switch tag {
		case "SIMPULSE", "TRIANGLE", "ROACH":
			if !ok {
				return fmt.Sprintf("the next start-up did not restore/announce %s", tag)
			}
			if c16Canon(gj) != c16Canon(wj) {
				return fmt.Sprintf("the next start-up restored %s as %s, last published %s", tag, c16Canon(gj), c16Canon(wj))
			}
		case "LANCERO", "ABACO":
			if !ok {
				return fmt.Sprintf("the next start-up did not restore/announce %s", tag)
			}
			gm, _ := gj.(map[string]any)
			wm, _ := wj.(map[string]any)
			for k, wv := range wm {
				if k == "DastardOutput" || k == "AvailableCards" {
					continue // outputs of Configure, not configuration
				}
				gv := gm[k]
				if k == "ActiveCards" || k == "HostPortUDP" {
					if tag == "ABACO" { // Configure sorts these and removes duplicates
						gv, wv = sortedSet(gv), sortedSet(wv)
					}
				}
				if c16Canon(gv) != c16Canon(wv) {
					return fmt.Sprintf("the next start-up restored %s.%s as %s, last published %s", tag, k, c16Canon(gv), c16Canon(wv))
				}
			}
		case "STATUS":
			if !ok {
				continue
			}
			gm, _ := gj.(map[string]any)
			wm, _ := wj.(map[string]any)
			for _, k := range []string{"Npresamp", "Nsamples"} {
				if c16Canon(gm[k]) != c16Canon(wm[k]) {
					return fmt.Sprintf("the next start-up restored the record lengths (%s) as %s, last published %s", k, c16Canon(gm[k]), c16Canon(wm[k]))
				}
			}
		case "WRITING":
			if !ok {
				continue
			}
			gm, _ := gj.(map[string]any)
			wm, _ := wj.(map[string]any)
			if c16Canon(gm["BasePath"]) != c16Canon(wm["BasePath"]) {
				return fmt.Sprintf("the next start-up restored the base path as %s, last published %s", c16Canon(gm["BasePath"]), c16Canon(wm["BasePath"]))
			}
		}
	}
	return ""
}

var c16CallRe = regexp.MustCompile(`^\d+\s+(\w+)\((.*)$`)

func c16CopyDir(src, dst string) error {
	os.RemoveAll(dst)
	return filepath.Walk(src, func(p string, info os.FileInfo, err error) error {
		if err != nil {
			return err
		}
		rel, _ := filepath.Rel(src, p)
		if info.IsDir() {
			return os.MkdirAll(filepath.Join(dst, rel), 0o775)
		}
		b, err := os.ReadFile(p)
		if err != nil {
			return err
		}
		return os.WriteFile(filepath.Join(dst, rel), b, 0o664)
	})
}

var c16StraceOK = -1 // -1 unknown, 0 unusable, 1 usable

func c16CrashRun(c c16CrashCase) (v vVerdict) {
	if len(c.Topics) == 0 || c.Old == c.New {
		return v
	}
	for _, ti := range c.Topics {
		if ti < 0 || ti >= len(c16Topics) || !c16Topics[ti].persist {
			return v
		}
	}
	if _, err := exec.LookPath("strace"); err != nil {
		return vVerdict{Inconclusive: "strace not installed"}
	}
	c16Counter++
	work := os.Getenv("VERIF_WORK")
	if work == "" {
		work = os.TempDir()
	}
	base := filepath.Join(work, fmt.Sprintf("c16crash_%d_%d", os.Getpid(), c16Counter))
	os.RemoveAll(base)
	os.MkdirAll(base, 0o775)
	defer os.RemoveAll(base)
	self, err := os.Executable()
	if err != nil {
		return vFailf("harness", "%v", err)
	}
	child := func(home string, variant int, straceArgs ...string) (string, error) {
		spec := filepath.Join(base, "spec.json")
		b, _ := json.Marshal(map[string]any{"home": home, "case": c, "variant": variant})
		os.WriteFile(spec, b, 0o644)
		args := []string{}
		name := self
		if len(straceArgs) > 0 {
			name = "strace"
			args = append(append(args, straceArgs...), self)
		}
		args = append(args, "-test.run", "^TestVerif_C16Child$")
		cmd := exec.Command(name, args...)
		cmd.Env = append(os.Environ(), "VERIF_C16_CHILD="+spec, "HOME="+home, "GOMAXPROCS=1", "VERIF_REPLAY=", "VERIF_OUT=")
		out, err := cmd.CombinedOutput()
		return string(out), err
	}
	_, oldWant := c16Messages(c, c.Old)
	_, newWant := c16Messages(c, c.New)
	// generation 0: the old configuration, saved by an undisturbed child
	gen0 := filepath.Join(base, "gen0")
	if out, err := child(gen0, c.Old); err != nil {
		return vFailf("harness", "undisturbed save failed: %v\n%s", err, vTrim(out, 500))
	}
	if err := c16SetupViper(gen0); err != nil {
		return vFailf("config-unreadable", "start-up cannot read an undisturbed save: %v", err)
	}
	if msg := c16Compare(oldWant); msg != "" {
		return vFailf("persist-differs", "after an undisturbed save: %s", msg)
	}
	// dry run of the second save under strace: which file-system calls touch the config directory, in which order?
	dry := filepath.Join(base, "dry")
	c16CopyDir(gen0, dry)
	trace := filepath.Join(base, "trace.txt")
	out, err := child(dry, c.New, "-f", "-y", "-o", trace, "-e", "trace=openat,open,creat,write,pwrite64,unlink,unlinkat,rename,renameat,renameat2,link,linkat,symlink,symlinkat,ftruncate,truncate,fsync,fdatasync,close")
	tb, terr := os.ReadFile(trace)
	if err != nil || terr != nil || len(tb) == 0 {
		if c16StraceOK != 1 {
			c16StraceOK = 0
			return vVerdict{Inconclusive: fmt.Sprintf("strace cannot trace the child here: %v %v %s", err, terr, vTrim(out, 200))}
		}
		return vFailf("harness", "dry run failed: %v %v\n%s", err, terr, vTrim(out, 500))
	}
	c16StraceOK = 1
	if err := c16SetupViper(dry); err != nil {
		return vFailf("config-unreadable", "start-up cannot read the second save: %v", err)
	}
	if msg := c16Compare(newWant); msg != "" {
		return vFailf("persist-differs", "after the second undisturbed save: %s", msg)
	}
	dot := filepath.Join(dry, ".dastard")
	type point struct {
		call string
		nth  int
		text string
	}
	var points []point
	counts := map[string]int{}
	for _, line := range strings.Split(string(tb), "\n") {
		m := c16CallRe.FindStringSubmatch(line)
		if m == nil {
			continue
		}
		call := m[1]
		if call == "close" {
			continue
		}
		counts[call]++
		if strings.Contains(m[2], dot) {
			points = append(points, point{call, counts[call], vTrim(line, 160)})
		}
	}
	if len(points) < 3 {
		return vFailf("harness", "the traced save made only %d file-system calls in the config directory:\n%s", len(points), vTrim(string(tb), 1500))
	}
	// one run per kill point: the child is killed on entry to that call
	for pi, p := range points {
		home := filepath.Join(base, fmt.Sprintf("kill%d", pi))
		c16CopyDir(gen0, home)
		out, err := child(home, c.New, "-f", "-o", "/dev/null", "-e", "trace="+p.call, "-e", fmt.Sprintf("inject=%s:signal=KILL:when=%d", p.call, p.nth))
		if err == nil {
			// the call ordinal did not come up in this run (the runtime made a different number of such calls): no kill happened
			v.Classes = append(v.Classes, "kill-missed")
			os.RemoveAll(home)
			continue
		}
		_ = out
		// next start-up: first what cmd/dastard's own setupViper does with the directory the crash left behind
		if msg := c16RealSetup(home); msg != "" {
			return vFailf("crash-startup-fails", "killed on entry to call %d of the save [%s]: the next start-up fails: %s", pi+1, p.text, vTrim(msg, 300))
		}
		full := filepath.Join(home, ".dastard", "config.yaml")
		st, serr := os.Stat(full)
		if serr != nil {
			if err := c16SetupViper(home); err == nil {
				if msg := c16Compare(oldWant); msg != "" {
					return vFailf("crash-lost-config", "killed on entry to call %d of the save [%s]: no configuration file is left; the next start-up creates an empty one and every setting is lost (%s)", pi+1, p.text, vTrim(msg, 200))
				}
			}
			return vFailf("crash-lost-config", "killed on entry to call %d of the save [%s]: no configuration file is left", pi+1, p.text)
		}
		if st.Size() == 0 {
			return vFailf("crash-empty-config", "killed on entry to call %d of the save [%s]: the configuration file is empty", pi+1, p.text)
		}
		if err := c16SetupViper(home); err != nil {
			return vFailf("crash-truncated-config", "killed on entry to call %d of the save [%s]: the next start-up cannot read the configuration file: %v", pi+1, p.text, err)
		}
		mo, mn := c16Compare(oldWant), c16Compare(newWant)
		if mo != "" && mn != "" {
			return vFailf("crash-mixed-config", "killed on entry to call %d of the save [%s]: the configuration read at the next start-up is neither the old nor the new one (vs old: %s; vs new: %s)",
				pi+1, p.text, vTrim(mo, 200), vTrim(mn, 200))
		}
		// the next run must be able to save again, whatever the interrupted save left lying around
		if out, err := child(home, c.New); err != nil {
			return vFailf("harness", "save after a crash failed to run: %v\n%s", err, vTrim(out, 400))
		}
		if err := c16SetupViper(home); err != nil {
			return vFailf("config-unreadable", "after a kill on entry to call %d [%s] and one more save, start-up cannot read the configuration: %v", pi+1, p.text, err)
		}
		if msg := c16Compare(newWant); msg != "" {
			return vFailf("save-after-crash-lost", "after a kill on entry to call %d of a save [%s], the next run's save did not take effect: %s", pi+1, p.text, vTrim(msg, 300))
		}
		os.RemoveAll(home)
	}
	v.NonTrivial = len(points) >= 4
	v.Classes = append(v.Classes, fmt.Sprintf("killpoints-%d", len(points)))
	return v
}

func TestVerif_C16Crash(t *testing.T) {
	if os.Getenv("VERIF_C16_CHILD") != "" {
		return
	}
	vCheck(t, "C16CRASH", c16CrashGen, c16CrashRun)
}

func TestVerif_C16Child(t *testing.T) {
	if os.Getenv("VERIF_C16_CHILD") != "" {
		c16ChildMain()
	}
}

var _ = reflect.DeepEqual
