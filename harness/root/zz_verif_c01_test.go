//go:build verif

package dastard

// C01: each pulse record is an exact, correctly labelled excerpt of its channel stream.
// Validity predicate over every record on the publish channel, independent of where the code
// chooses to trigger: lengths as configured, samples bit-identical to the delivered stream around
// the stated trigger frame, trigger time as the block stamps assign it, labels of the channel.

import (
	"math"
	"testing"

	"pgregory.net/rapid"
)

func c01Gen(t *rapid.T) vPipeCase {
	var c vPipeCase
	c.Nchan = rapid.IntRange(1, 4).Draw(t, "nchan")
	c.Npre, c.Nsamp = vGenLengths(t)
	c.F0 = vGenF0(t)
	c.PeriodNs = rapid.SampledFrom([]int64{1000, 6400, 320, 100000, 1001, 6399, 7}).Draw(t, "period")
	if rapid.IntRange(0, 3).Draw(t, "oddrate") == 0 {
		// a sample rate whose period is not a whole number of nanoseconds (the blocks carry the rounded period, as real sources make it)
		c.RateHz = rapid.SampledFrom([]float64{30000, 70000, 110000, 1e6 / 3, 123456.789, 48000}).Draw(t, "ratehz")
		c.PeriodNs = int64(math.Round(1e9 / c.RateHz))
	}
	total := rapid.IntRange(2*c.Nsamp, 40*c.Nsamp).Draw(t, "total")
	if rapid.IntRange(0, 7).Draw(t, "shortstream") == 0 {
		total = rapid.IntRange(1, 2*c.Nsamp).Draw(t, "totalshort")
	}
	c.Blocks = vGenPartition(t, c.Npre, c.Nsamp, total)
	if rapid.IntRange(0, 3).Draw(t, "jitter") == 0 {
		for range c.Blocks {
			c.JitterNs = append(c.JitterNs, rapid.Int64Range(-5000, 5000).Draw(t, "jit"))
		}
	}
	for ch := 0; ch < c.Nchan; ch++ {
		c.Streams = append(c.Streams, vGenStream(t))
	}
	c.Pulses = vGenPulses(t, c.Nchan, c.Nsamp, c.Blocks, 8)
	cur := make([]vTrigCfg, c.Nchan)
	npre, nsamp := c.Npre, c.Nsamp
	startMode := rapid.IntRange(0, 9).Draw(t, "startmode")
	allChans := make([]int, c.Nchan)
	for i := range allChans {
		allChans[i] = i
	}
	subset := func(label string) []int {
		if rapid.Bool().Draw(t, label+"all") {
			return append([]int(nil), allChans...)
		}
		var s []int
		for _, ch := range allChans {
			if rapid.Bool().Draw(t, label) {
				s = append(s, ch)
			}
		}
		if len(s) == 0 {
			s = []int{rapid.IntRange(0, c.Nchan-1).Draw(t, label+"one")}
		}
		return s
	}
	switch {
	case startMode < 3: // fresh start, settings restored from the saved configuration
		tr := vGenTrig(t, npre, nsamp, c.PeriodNs, false)
		chans := subset("rchan")
		if rapid.IntRange(0, 4).Draw(t, "extrachan") == 0 {
			chans = append(chans, c.Nchan+1) // saved for more channels than exist now
		}
		c.Restored = append(c.Restored, vRestored{Chans: chans, Trig: tr})
		for _, ch := range chans {
			if ch < c.Nchan {
				cur[ch] = tr
			}
		}
	case startMode < 9: // client configures triggers right after start
		tr := vGenTrig(t, npre, nsamp, c.PeriodNs, true)
		chans := subset("cchan")
		c.Hist = append(c.Hist, vHistOp{At: 0, Kind: "trigger", Chans: chans, Trig: tr})
		for _, ch := range chans {
			cur[ch] = tr
		}
	}
	if c.Nchan > 1 && rapid.IntRange(0, 9).Draw(t, "initialconnect") < 4 {
		c.Hist = append(c.Hist, vHistOp{At: 0, Kind: "connect", Src: rapid.IntRange(0, c.Nchan-1).Draw(t, "src0"), Rx: subset("rx0")})
	}
	nops := rapid.IntRange(0, 4).Draw(t, "nhist")
	at := 0
	for i := 0; i < nops && len(c.Blocks) > 1; i++ {
		at = rapid.IntRange(at, len(c.Blocks)-1).Draw(t, "at")
		switch rapid.IntRange(0, 5).Draw(t, "histkind") {
		case 0, 1:
			tr := vGenTrig(t, npre, nsamp, c.PeriodNs, true)
			chans := subset("hchan")
			c.Hist = append(c.Hist, vHistOp{At: at, Kind: "trigger", Chans: chans, Trig: tr})
			for _, ch := range chans {
				cur[ch] = tr
			}
		case 2:
			np, ns := vGenLengths(t)
			switch rapid.IntRange(0, 3).Draw(t, "lengthschange") {
			case 0:
				np, ns = npre, nsamp // unchanged
			case 1: // only the pre-trigger length changes (either direction, possibly by a lot)
				np, ns = rapid.IntRange(3, nsamp-1).Draw(t, "npreonly"), nsamp
			}
			ok := true
			for _, tc := range cur {
				if !tc.emtValid(np, ns) {
					ok = false
				}
			}
			if ok {
				c.Hist = append(c.Hist, vHistOp{At: at, Kind: "lengths", Npre: np, Nsamp: ns})
				npre, nsamp = np, ns
			}
		case 3, 4:
			if c.Nchan > 1 {
				src := rapid.IntRange(0, c.Nchan-1).Draw(t, "src")
				rx := subset("rx")
				kind := "connect"
				if rapid.IntRange(0, 3).Draw(t, "disc") == 0 {
					kind = "disconnect"
				}
				c.Hist = append(c.Hist, vHistOp{At: at, Kind: kind, Src: src, Rx: rx})
			}
		default:
			c.Hist = append(c.Hist, vHistOp{At: at, Kind: "stopcoupling"})
		}
	}
	return c
}

func c01Run(c vPipeCase) (v vVerdict) {
	if !c.valid() {
		return v
	}
	for _, h := range c.Hist {
		if (h.Kind == "connect" || h.Kind == "disconnect") && (h.Src < 0 || h.Src >= c.Nchan) {
			return v // out-of-range group indices are C09's business
		}
		for _, rx := range h.Rx {
			if rx < 0 || rx >= c.Nchan {
				return v
			}
		}
	}
	spans, afterTrim, secondary, reconfig := false, false, false, false
	nrec := 0
	tr, fail := vRunPipe(&c, func(tr *vTrace, k int, recs []*DataRecord) *vVerdict {
		for _, r := range recs {
			if f := vCheckExcerpt(&c, tr, k, r); f != nil {
				return f
			}
			nrec++
			lo := int(int64(r.trigFrame)-c.F0) - r.presamples
			if lo < tr.Blocks[k].Start {
				spans = true
			}
			if k > 0 {
				afterTrim = true
			}
			isPrimary := false
			for _, f := range tr.Blocks[k].Primary[r.channelIndex] {
				if f == r.trigFrame {
					isPrimary = true
				}
			}
			if !isPrimary {
				secondary = true
			}
		}
		return nil
	})
	if fail != nil {
		return *fail
	}
	_ = tr
	if len(c.Streams) > 0 && c.Streams[0].Seed%4 == 1 && len(c.Blocks) >= 2 && len(c.Gaps) == 0 {
		// "no block pattern makes processing crash": the same case once more with the source's frame numbers jumping between
		// blocks, as after lost data. Nothing is asserted about those records (the stream re-labels what it holds).
		g := c
		g.Gaps = make([]int, len(c.Blocks))
		for k := 1; k < len(g.Gaps); k++ {
			g.Gaps[k] = []int{0, 0, c.Nsamp + 11, 300, 5, 100000, 1}[(c.Streams[0].Seed/4+k*5)%7]
		}
		if _, gfail := vRunPipe(&g, nil); gfail != nil && gfail.Sig != "record-changed-after-publication" {
			gfail.Msg = "frame numbers jumping between blocks: " + gfail.Msg
			return *gfail
		}
		v.Classes = append(v.Classes, "frame-gaps-between-blocks")
	}
	for _, h := range c.Hist {
		if h.At > 0 {
			reconfig = true
		}
	}
	v.NonTrivial = nrec > 0 && (spans || afterTrim)
	if nrec > 0 {
		v.Classes = append(v.Classes, "has-records")
	}
	if spans {
		v.Classes = append(v.Classes, "record-spans-blocks")
	}
	if secondary {
		v.Classes = append(v.Classes, "secondary-present")
	}
	if reconfig {
		v.Classes = append(v.Classes, "reconfig-mid-stream")
	}
	if len(c.Restored) > 0 {
		v.Classes = append(v.Classes, "restored-settings")
	}
	one, short := true, false
	for _, b := range c.Blocks {
		if b != 1 {
			one = false
		}
		if b < c.Nsamp {
			short = true
		}
	}
	if one {
		v.Classes = append(v.Classes, "all-1-sample-blocks")
	}
	if short {
		v.Classes = append(v.Classes, "block-shorter-than-record")
	}
	if len(c.JitterNs) > 0 {
		v.Classes = append(v.Classes, "jittered-stamps")
	}
	for _, h := range c.Hist {
		if h.Kind == "trigger" && h.Trig.EMT {
			v.Classes = append(v.Classes, "edge-multi")
			break
		}
	}
	return v
}

func TestVerif_C01(t *testing.T) { vCheck(t, "C01", c01Gen, c01Run) }
