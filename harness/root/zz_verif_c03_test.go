//go:build verif

package dastard

// C03: Abaco ingest - exact demultiplexing, gap filling, continuous frame numbering.
// A scripted PacketProducer (the harness owns packet arrival: which packets reach which read tick,
// which are lost, which group lags) feeds the real Sample() -> readerMainLoop() -> distributeData()
// chain.  Oracle: a reference demultiplexer written from the statement of the property.

import (
	"bytes"
	"encoding/binary"
	"fmt"
	"os"
	"sync"
	"testing"
	"time"

	"github.com/usnistgov/dastard/packets"
	"github.com/usnistgov/dastard/ringbuffer"
	"pgregory.net/rapid"
)

type c03Group struct {
	First    int    `json:"first"`    // first channel number
	Nchan    int    `json:"nchan"`    // channels in the group
	Base     uint32 `json:"base"`     // sequence number of the group's first sampled packet
	Int32    bool   `json:"int32"`    // 32-bit payload
	Producer int    `json:"producer"` // which producer (ring / UDP port) carries the group
	TwoD     bool   `json:"twod,omitempty"` // payload shape given as 2 x nchan/2
}

type c03Case struct {
	F          int        `json:"frames_per_packet"`
	Groups     []c03Group `json:"groups"`
	NProducers int        `json:"nproducers"`
	NSample    int        `json:"nsample"`     // packets per group offered during the sampling phase
	SampleLost [][]int    `json:"sample_lost"` // per group: lost positions in the sampling phase (never position 0)
	Ticks      [][]int    `json:"ticks"`       // per read tick, per group: how many further packet positions arrive (lost ones included)
	Lost       [][]int    `json:"lost"`        // per group: lost run-phase positions (0-based, after the sampling phase)
	Interleave bool       `json:"interleave"`  // packets of different groups alternate within a tick (else group after group)
	NoTS       bool       `json:"no_timestamps,omitempty"` // single group only: the packets carry no timestamp TLV (legal: the rate is then not measured)
	Ring       bool       `json:"ring,omitempty"` // the producers are real AbacoRings over real shared-memory ring buffers the harness writes into
	Slot       int        `json:"slot,omitempty"`       // ring mode: packet (slot) size announced in the ring description (0: 8192)
	StartMid   int        `json:"start_mid_packet,omitempty"` // ring mode: the source is started while the data producer is this many bytes into a packet
	RealSample bool       `json:"real_sample,omitempty"` // ring mode: the sampling phase uses AbacoRing.samplePackets itself (it ends on its time limit)
	RingTight  int        `json:"ring_tight,omitempty"` // ring mode: 0 a ring of 256 slots; 1 a ring only a few slots larger than the largest batch (reads wrap around its end); 2 the same plus half a slot (the ring is no whole number of slots)
	PriorSlot  int        `json:"prior_slot,omitempty"` // ring mode: the same AbacoRing objects were started and stopped before, on rings with this slot size
	Seed       int        `json:"seed"`
}

func (c *c03Case) valid() bool {
	if c.F < 1 || c.F > 64 || len(c.Groups) < 1 || len(c.Groups) > 6 || c.NSample < 2 || c.NSample > 64 || c.NProducers < 1 ||
		len(c.SampleLost) != len(c.Groups) || len(c.Lost) != len(c.Groups) || len(c.Ticks) > 400 {
		return false
	}
	for _, g := range c.Groups {
		if g.Nchan < 1 || g.Nchan > 64 || g.First < 0 || g.Producer < 0 || g.Producer >= c.NProducers {
			return false
		}
		if g.TwoD && g.Nchan%2 != 0 {
			return false
		}
	}
	for i, a := range c.Groups { // groups seen at start-up must not overlap (overlap is rejected by Sample; C19 covers that)
		for j, b := range c.Groups {
			if i < j && a.First < b.First+b.Nchan && b.First < a.First+a.Nchan {
				return false
			}
		}
	}
	for _, tk := range c.Ticks {
		if len(tk) != len(c.Groups) {
			return false
		}
		for _, n := range tk {
			if n < 0 || n > 6000 {
				return false
			}
		}
	}
	for _, l := range c.SampleLost {
		for _, p := range l {
			if p <= 0 || p >= c.NSample {
				return false
			}
		}
	}
	return true
}

// c03Value is the sample the scripted hardware produces for (group, channel-in-group, absolute frame).
func c03Value(seed, g, k int, frame int64) int32 {
	return int32(uint32(vNoise(seed+1000*g+k, int(frame&0x7fffffff))) * 2654435761)
}

type c03Producer struct {
	slot    int
	midSkip int // ring mode: so many bytes of the first packet are in the ring already
	ring    *AbacoRing             // ring mode: the real reader ...
	writer  *ringbuffer.RingBuffer // ... and the harness' writing end of the same shared memory
	ringErr string
	realSample bool // ring mode: the sampling phase goes through the ring's own samplePackets
	mu      sync.Mutex
	sample  []*packets.Packet
	ticks   [][]*packets.Packet
	next    int
	calls   int
	done    chan struct{}
	doneSet bool
	extra   int // calls after the script before done is signalled
}

func (p *c03Producer) start() error {
	if p.ring != nil {
		return p.ring.start()
	}
	return nil
}
func (p *c03Producer) discardStale() error {
	if p.ring != nil {
		return p.ring.discardStale()
	}
	return nil
}
func (p *c03Producer) stop() error {
	if p.ring != nil {
		return p.ring.stop()
	}
	return nil
}

// viaRing writes the packets into the shared-memory ring as the hardware's DMA does (one 8192-byte slot each) and
// lets the real AbacoRing read them back.
func (p *c03Producer) viaRing(ps []*packets.Packet) ([]*packets.Packet, error) {
	if _, err := p.viaRingWrite(ps); err != nil {
		return nil, err
	}
	return p.ring.ReadAllPackets()
}

// viaRingWrite is the writing half of viaRing.
func (p *c03Producer) viaRingWrite(ps []*packets.Packet) (int, error) {
	for _, q := range ps {
		b := q.Bytes()
		slot := make([]byte, (len(b)+p.slot-1)/p.slot*p.slot)
		copy(slot, b)
		if p.midSkip > 0 { // the beginning of this packet was written before the source was started
			slot = slot[p.midSkip:]
			p.midSkip = 0
		}
		if n, err := p.writer.Write(slot); err != nil || n != len(slot) {
			p.ringErr = fmt.Sprintf("harness: ring took %d of %d bytes (%v)", n, len(slot), err)
			return 0, fmt.Errorf("%s", p.ringErr)
		}
	}
	return len(ps), nil
}
func (p *c03Producer) samplePackets(d time.Duration) ([]*packets.Packet, error) {
	if p.ring != nil {
		if p.realSample {
			// the ring's own sampling step: fewer than its 100 packets arrive, so it ends on its time limit with what it has read
			if _, err := p.viaRingWrite(p.sample); err != nil {
				return nil, err
			}
			return p.ring.samplePackets(40 * time.Millisecond)
		}
		return p.viaRing(p.sample)
	}
	return p.sample, nil
}
func (p *c03Producer) ReadAllPackets() ([]*packets.Packet, error) {
	p.mu.Lock()
	defer p.mu.Unlock()
	if p.next < len(p.ticks) {
		out := p.ticks[p.next]
		p.next++
		if p.ring != nil {
			return p.viaRing(out)
		}
		return out, nil
	}
	p.extra++
	if p.extra >= 2 && !p.doneSet && p.done != nil {
		// the tick after the last scripted one has been fully processed: everything is out
		p.doneSet = true
		close(p.done)
	}
	return nil, nil
}

// c03MakePacket builds the packet of group g at absolute position a and passes it over the wire format.
func c03MakePacket(c *c03Case, gi int, a int) (*packets.Packet, error) {
	g := c.Groups[gi]
	sn := g.Base + uint32(a)
	p := packets.NewPacket(10, uint32(100+gi), sn-1, g.First) // NewData increments the sequence number
	const rate = 1e8
	const countsPerFrame = 1000 // 100 kHz sampling
	t := uint64(5000 + int64(a)*int64(c.F)*countsPerFrame)
	if !c.NoTS || len(c.Groups) > 1 {
		p.SetTimestamp(packets.MakeTimestamp(uint16(t>>32), uint32(t), rate))
	}
	dims := []int16{int16(g.Nchan)}
	if g.TwoD {
		dims = []int16{2, int16(g.Nchan / 2)}
	}
	var err error
	if g.Int32 {
		d := make([]int32, c.F*g.Nchan)
		for f := 0; f < c.F; f++ {
			for k := 0; k < g.Nchan; k++ {
				d[f*g.Nchan+k] = c03Value(c.Seed, gi, k, int64(a)*int64(c.F)+int64(f))
			}
		}
		err = p.NewData(d, dims)
	} else {
		d := make([]int16, c.F*g.Nchan)
		for f := 0; f < c.F; f++ {
			for k := 0; k < g.Nchan; k++ {
				d[f*g.Nchan+k] = int16(c03Value(c.Seed, gi, k, int64(a)*int64(c.F)+int64(f)) >> 16)
			}
		}
		err = p.NewData(d, dims)
	}
	if err != nil {
		return nil, err
	}
	q, err := packets.ReadPacket(bytes.NewReader(p.Bytes()))
	if err != nil {
		return nil, fmt.Errorf("ReadPacket of a constructed packet: %v", err)
	}
	return q, nil
}

func c03Run(c c03Case) (v vVerdict) {
	if !c.valid() {
		return v
	}
	ng := len(c.Groups)
	// payload must fit a packet
	for _, g := range c.Groups {
		w := 2
		if g.Int32 {
			w = 4
		}
		if c.F*g.Nchan*w > 8000 {
			return v
		}
	}
	lost := make([]map[int]bool, ng)
	slost := make([]map[int]bool, ng)
	for gi := range c.Groups {
		lost[gi], slost[gi] = map[int]bool{}, map[int]bool{}
		for _, p := range c.Lost[gi] {
			lost[gi][p] = true
		}
		for _, p := range c.SampleLost[gi] {
			slost[gi][p] = true
		}
	}
	// --- build the script -------------------------------------------------------------------------
	prods := make([]*c03Producer, c.NProducers)
	for i := range prods {
		prods[i] = &c03Producer{}
	}
	lastSample := make([]int, ng) // absolute position of the last sampled packet that arrived
	for gi, g := range c.Groups {
		for a := 0; a < c.NSample; a++ {
			if slost[gi][a] {
				continue
			}
			p, err := c03MakePacket(&c, gi, a)
			if err != nil {
				return vFailf("harness", "%v", err)
			}
			prods[g.Producer].sample = append(prods[g.Producer].sample, p)
			lastSample[gi] = a
		}
		if len(c.SampleLost[gi]) > c.NSample-2 {
			return v // need two sampled packets per group to measure the rate
		}
	}
	pos := make([]int, ng) // next run-phase position per group
	arrived := make([]map[int]bool, ng)
	for gi := range arrived {
		arrived[gi] = map[int]bool{}
	}
	queuedAcrossTick, lossWhileQueued, lagging := false, false, false
	deliver := func(counts []int) {
		per := make([][]*packets.Packet, ng)
		for gi := range c.Groups {
			for n := 0; n < counts[gi]; n++ {
				r := pos[gi]
				pos[gi]++
				if lost[gi][r] {
					continue
				}
				p, err := c03MakePacket(&c, gi, c.NSample+r)
				if err != nil {
					panic("harness: " + err.Error())
				}
				arrived[gi][r] = true
				per[gi] = append(per[gi], p)
			}
		}
		batch := make([][]*packets.Packet, c.NProducers)
		if c.Interleave {
			for i := 0; ; i++ {
				any := false
				for gi, g := range c.Groups {
					if i < len(per[gi]) {
						batch[g.Producer] = append(batch[g.Producer], per[gi][i])
						any = true
					}
				}
				if !any {
					break
				}
			}
		} else {
			for gi, g := range c.Groups {
				batch[g.Producer] = append(batch[g.Producer], per[gi]...)
			}
		}
		for i, pr := range prods {
			pr.ticks = append(pr.ticks, batch[i])
		}
	}
	for _, tk := range c.Ticks {
		before := append([]int(nil), pos...)
		deliver(tk)
		mn, mx := pos[0], pos[0]
		for _, p := range pos {
			if p < mn {
				mn = p
			}
			if p > mx {
				mx = p
			}
		}
		if mx > mn {
			lagging = true
			queuedAcrossTick = true
		}
		_ = before
	}
	// final tick: every group catches up to a common end; the last packet of every group arrives
	end := 0
	for _, p := range pos {
		if p > end {
			end = p
		}
	}
	end += 2
	final := make([]int, ng)
	for gi := range c.Groups {
		final[gi] = end - pos[gi]
		delete(lost[gi], end-1)
	}
	deliver(final)
	// a loss "while packets are queued": a lost position after the slowest group's position at some tick
	{
		p2 := make([]int, ng)
		for _, tk := range c.Ticks {
			mn := 1 << 30
			for gi := range tk {
				p2[gi] += tk[gi]
				if p2[gi] < mn {
					mn = p2[gi]
				}
			}
			for gi := range tk {
				if p2[gi] > mn { // group gi keeps packets queued; is there a loss right after?
					for r := range lost[gi] {
						if r >= p2[gi] && r < p2[gi]+(p2[gi]-mn)+2 {
							lossWhileQueued = true
						}
					}
				}
			}
		}
	}
	nlost := 0
	for gi := range lost {
		nlost += len(lost[gi])
	}

	// --- run the real code ------------------------------------------------------------------------
	as, err := NewAbacoSource()
	if err != nil {
		return vFailf("harness", "NewAbacoSource: %v", err)
	}
	as.producers = as.producers[:0]
	ringMode := c.Ring
	startedMid := false
	slotSize := c.Slot
	if slotSize == 0 {
		slotSize = 8192
	}
	if ringMode { // every batch must fit into the ring (255 slots) and every packet into one slot
		if slotSize < 1024 || slotSize > 65536 || slotSize%8 != 0 || (c.PriorSlot != 0 && (c.PriorSlot < 1024 || c.PriorSlot > 65536 || c.PriorSlot%8 != 0)) {
			ringMode = false
		}
		for _, pr := range prods {
			for _, tk := range append([][]*packets.Packet{pr.sample}, pr.ticks...) {
				if len(tk) > 250 {
					ringMode = false
				}
				for _, q := range tk {
					if q.Length() > slotSize {
						ringMode = false
					}
				}
			}
		}
	}
	if ringMode {
		for i, pr := range prods {
			name := fmt.Sprintf("verif_c03_%d_%s_%d", os.Getpid(), os.Getenv("VERIF_SHARD"), i)
			maxBatch := len(pr.sample)
			for _, tk := range pr.ticks {
				if len(tk) > maxBatch {
					maxBatch = len(tk)
				}
			}
			mk := func(sz int) (*ringbuffer.RingBuffer, error) {
				w, _ := ringbuffer.NewRingBuffer(name+"_buffer", name+"_description")
				w.Unlink()
				ringBytes := 256 * sz
				switch c.RingTight {
				case 1:
					ringBytes = (maxBatch + 4) * sz
				case 2:
					ringBytes = (maxBatch+4)*sz + sz/2
				}
				if err := w.Create(ringBytes); err != nil {
					return nil, err
				}
				// the packet size is a field of the ring description that the data producer fills in (Create, "for testing only",
				// always says 8192): int64 at offset 32 of the description region
				f, err := os.OpenFile("/dev/shm/"+name+"_description", os.O_WRONLY, 0)
				if err != nil {
					return nil, err
				}
				defer f.Close()
				var b [8]byte
				binary.LittleEndian.PutUint64(b[:], uint64(sz))
				if _, err := f.WriteAt(b[:], 32); err != nil {
					return nil, err
				}
				return w, nil
			}
			r, _ := ringbuffer.NewRingBuffer(name+"_buffer", name+"_description")
			pr.ring, pr.slot = &AbacoRing{ringnum: -1, ring: r}, slotSize
			pr.realSample = c.RealSample
			if c.PriorSlot != 0 {
				// an earlier run of the same server on a ring with another packet size: started and stopped
				w0, err := mk(c.PriorSlot)
				if err != nil {
					return vVerdict{Inconclusive: "cannot create a shared-memory ring: " + err.Error()}
				}
				if err := pr.ring.start(); err != nil {
					w0.Close()
					w0.Unlink()
					return vFailf("ring-start", "AbacoRing.start on a fresh ring with packet size %d: %v", c.PriorSlot, err)
				}
				pr.ring.stop()
				w0.Close()
				w0.Unlink()
			}
			w, err := mk(slotSize)
			if err != nil {
				return vVerdict{Inconclusive: "cannot create a shared-memory ring: " + err.Error()}
			}
			defer func() { w.Close(); w.Unlink() }()
			pr.writer = w
			if c.StartMid > 0 && c.StartMid < slotSize && len(pr.sample) > 0 {
				// the data producer never stops: one stale packet and the first part of the next one are in the ring when the
				// source attaches; it must begin with a whole packet
				stale := make([]byte, slotSize)
				copy(stale, pr.sample[0].Bytes())
				first := make([]byte, slotSize)
				copy(first, pr.sample[0].Bytes())
				w.Write(stale)
				w.Write(first[:c.StartMid])
				pr.midSkip = c.StartMid
				startedMid = true
			}
		}
	}
	for _, pr := range prods {
		as.producers = append(as.producers, pr)
	}
	done := make(chan struct{})
	prods[0].done = done
	if err := as.Sample(); err != nil {
		return vFailf("sample-rejected", "Sample() rejected a valid group layout: %v", err)
	}
	if as.nchan != func() int { n := 0; for _, g := range c.Groups { n += g.Nchan }; return n }() {
		return vFailf("nchan", "Sample() found %d channels, the layout has other count", as.nchan)
	}
	if err := as.PrepareChannels(); err != nil {
		return vFailf("prepare", "%v", err)
	}
	// what StartRun does, with a short read period (the scripted producer is the clock)
	as.abortSelf = make(chan struct{})
	as.buffersChan = make(chan AbacoBuffersType, 100)
	as.readPeriod = time.Millisecond
	f0 := as.nextFrameNum
	type crash struct {
		r     any
		stack string
	}
	crashed := make(chan crash, 1)
	go func() {
		defer func() {
			if r := recover(); r != nil {
				crashed <- crash{r, vPanicStack()}
			}
		}()
		as.readerMainLoop()
	}()
	var blocks []*dataBlock
	finished := false
	deadline := time.After(20 * time.Second)
	for !finished {
		select {
		case msg, ok := <-as.buffersChan:
			if !ok || msg.datacopies == nil {
				finished = true
				break
			}
			blocks = append(blocks, as.distributeData(msg))
		case <-done:
			closeIfOpen(as.abortSelf)
			done = nil
		case cr := <-crashed:
			return vVerdict{Fail: true, Sig: "panic|" + vPanicFrame(cr.stack), Msg: fmt.Sprintf("panic in the reader loop: %v\n%s", cr.r, vTrim(cr.stack, 2500))}
		case <-deadline:
			closeIfOpen(as.abortSelf)
			return vVerdict{Inconclusive: "reader loop did not finish the script within 20 s"}
		}
	}
	select {
	case cr := <-crashed:
		return vVerdict{Fail: true, Sig: "panic|" + vPanicFrame(cr.stack), Msg: fmt.Sprintf("panic in the reader loop: %v\n%s", cr.r, vTrim(cr.stack, 2500))}
	default:
	}

	// --- reference demultiplexer ------------------------------------------------------------------
	// absolute position a: 0..NSample-1 sampling phase, NSample+r run phase.  Sequence numbers are
	// synchronised on the first sampled packet of each group, so position = global sequence number.
	a0 := 0
	for gi := range c.Groups {
		if lastSample[gi]+1 > a0 {
			a0 = lastSample[gi] + 1
		}
	}
	aEnd := c.NSample + end // exclusive
	wantFrames := (aEnd - a0) * c.F
	// block structure
	nextFrame := f0
	total := 0
	dropped := 0
	chanOut := make([][]RawType, as.nchan)
	for bi, b := range blocks {
		if b.err != nil {
			return vFailf("block-error", "block %d carries error %v", bi, b.err)
		}
		if len(b.segments) != as.nchan {
			return vFailf("block-channels", "block %d has %d segments for %d channels", bi, len(b.segments), as.nchan)
		}
		n := len(b.segments[0].rawData)
		for ch, s := range b.segments {
			if len(s.rawData) != n {
				return vFailf("block-unequal", "block %d: channel %d has %d samples, channel 0 has %d", bi, ch, len(s.rawData), n)
			}
			if s.firstFrameIndex != nextFrame {
				return vFailf("frame-numbers", "block %d channel %d: first frame %d, previous block ended at %d", bi, ch, s.firstFrameIndex, nextFrame)
			}
			chanOut[ch] = append(chanOut[ch], s.rawData...)
		}
		dropped += b.segments[0].droppedFrames
		nextFrame += FrameIndex(n)
		total += n
	}
	if total != wantFrames {
		return vFailf("sample-count", "%d frames were emitted per channel; packets %d..%d of every group (%d frames each, lost ones filled) span %d frames",
			total, a0, aEnd-1, c.F, wantFrames)
	}
	// content, channel by channel in sorted-group order
	order := make([]int, ng)
	for i := range order {
		order[i] = i
	}
	for i := range order { // sort by first channel
		for j := i + 1; j < ng; j++ {
			if c.Groups[order[j]].First < c.Groups[order[i]].First {
				order[i], order[j] = order[j], order[i]
			}
		}
	}
	ch := 0
	fillMin, fillMax := 0, 0
	for _, gi := range order {
		g := c.Groups[gi]
		for a := lastSample[gi] + 1; a < aEnd; a++ {
			if a < c.NSample || !arrived[gi][a-c.NSample] {
				fillMax += c.F
				if a >= a0 {
					fillMin += c.F
				}
			}
		}
		for k := 0; k < g.Nchan; k++ {
			out := chanOut[ch]
			for a := a0; a < aEnd; a++ {
				if a < c.NSample || !arrived[gi][a-c.NSample] {
					continue // filler: content not constrained, count is (checked above)
				}
				for f := 0; f < c.F; f++ {
					raw := c03Value(c.Seed, gi, k, int64(a)*int64(c.F)+int64(f))
					want := RawType(uint16(raw >> 16))
					got := out[(a-a0)*c.F+f]
					ok := got == want
					if !ok && g.Int32 && got == RawType(raw/0x10000) {
						ok = true // 32-bit payloads: the code keeps value/65536 (rounds towards zero); both readings of "upper 16 bits" accepted
					}
					if !ok {
						return vFailf("sample-differs", "channel index %d (group first=%d, channel %d of it): output frame %d should be frame %d of the packet at position %d (seq %d) = %d, got %d",
							ch, g.First, k, (a-a0)*c.F+f, f, a, g.Base+uint32(a), want, got)
					}
				}
			}
			ch++
		}
	}
	if dropped < fillMin || dropped > fillMax {
		return vFailf("dropped-count", "blocks report %d dropped frames in total; %d filler frames were inserted into the output (%d counting fillers trimmed before the common start)",
			dropped, fillMin, fillMax)
	}
	v.NonTrivial = nlost > 0 && queuedAcrossTick
	if ng > 1 {
		v.Classes = append(v.Classes, "multi-group")
	}
	if c.NoTS && ng == 1 {
		v.Classes = append(v.Classes, "packets-without-timestamps")
	}
	if ringMode {
		v.Classes = append(v.Classes, "real-ring-buffers")
		if c.RingTight > 0 {
			v.Classes = append(v.Classes, fmt.Sprintf("small-ring-%d", c.RingTight))
		}
		if c.PriorSlot != 0 && c.PriorSlot != slotSize {
			v.Classes = append(v.Classes, "ring-restarted-with-other-packet-size")
		}
		if startedMid {
			v.Classes = append(v.Classes, "ring-attached-mid-packet")
		}
	}
	if lagging {
		v.Classes = append(v.Classes, "lagging-group")
	}
	if nlost > 0 {
		v.Classes = append(v.Classes, "loss")
	}
	if lossWhileQueued {
		v.Classes = append(v.Classes, "loss-while-queued")
	}
	if len(blocks) > 1 {
		v.Classes = append(v.Classes, "multi-block")
	}
	return v
}

func c03Gen(t *rapid.T) c03Case {
	var c c03Case
	c.F = rapid.SampledFrom([]int{1, 2, 3, 4, 8, 16}).Draw(t, "F")
	ng := rapid.SampledFrom([]int{1, 2, 2, 3, 3, 4}).Draw(t, "ngroups")
	c.NProducers = rapid.IntRange(1, ng).Draw(t, "nproducers")
	c.NSample = rapid.IntRange(2, 6).Draw(t, "nsample")
	c.Seed = rapid.IntRange(0, 1<<20).Draw(t, "seed")
	c.Interleave = rapid.Bool().Draw(t, "interleave")
	c.Ring = rapid.IntRange(0, 3).Draw(t, "ring") == 0
	c.NoTS = ng == 1 && rapid.IntRange(0, 2).Draw(t, "nots") == 0
	if c.Ring {
		c.Slot = rapid.SampledFrom([]int{0, 0, 4096, 16384}).Draw(t, "slot")
		c.PriorSlot = rapid.SampledFrom([]int{0, 0, 8192, 4096, 16384}).Draw(t, "priorslot")
		c.StartMid = rapid.SampledFrom([]int{0, 0, 8, 100, 3000, 4088}).Draw(t, "startmid")
		c.RingTight = rapid.SampledFrom([]int{0, 1, 2, 2}).Draw(t, "ringtight")
		c.RealSample = rapid.IntRange(0, 2).Draw(t, "realsample") == 0
	}
	first := rapid.SampledFrom([]int{0, 1, 100}).Draw(t, "firstchan")
	var groups []c03Group
	for gi := 0; gi < ng; gi++ {
		g := c03Group{First: first, Nchan: rapid.IntRange(1, 8).Draw(t, "nchan"), Int32: rapid.IntRange(0, 3).Draw(t, "int32") == 0,
			Producer: rapid.IntRange(0, c.NProducers-1).Draw(t, "producer")}
		g.Base = rapid.SampledFrom([]uint32{1, 2, 1000, 70000, 1 << 31, 0xffffffc0, 0xfffffff0, 0xffffff00}).Draw(t, "base") + uint32(rapid.IntRange(0, 50).Draw(t, "baseoff"))
		if g.Nchan%2 == 0 && rapid.IntRange(0, 4).Draw(t, "twod") == 0 {
			g.TwoD = true
		}
		first += g.Nchan + rapid.SampledFrom([]int{0, 0, 3, 64}).Draw(t, "chgap")
		groups = append(groups, g)
	}
	// arrival order of groups is not sorted by channel number
	perm := rapid.Permutation(groups).Draw(t, "grouporder")
	c.Groups = perm
	c.SampleLost = make([][]int, ng)
	c.Lost = make([][]int, ng)
	for gi := 0; gi < ng; gi++ {
		if c.NSample > 3 && rapid.IntRange(0, 3).Draw(t, "samplelost") == 0 {
			c.SampleLost[gi] = []int{rapid.IntRange(1, c.NSample-1).Draw(t, "sl")}
		}
	}
	nticks := rapid.IntRange(1, 12).Draw(t, "nticks")
	lagger := -1
	if ng > 1 && rapid.IntRange(0, 9).Draw(t, "haslagger") < 7 {
		lagger = rapid.IntRange(0, ng-1).Draw(t, "lagger")
	}
	tot := make([]int, ng)
	for k := 0; k < nticks; k++ {
		tk := make([]int, ng)
		base := rapid.IntRange(0, 6).Draw(t, "tickbase")
		for gi := range tk {
			switch rapid.IntRange(0, 5).Draw(t, "tickkind") {
			case 0:
				tk[gi] = 0
			case 1:
				tk[gi] = rapid.IntRange(0, 8).Draw(t, "tickn")
			default:
				tk[gi] = base
			}
			if gi == lagger && rapid.IntRange(0, 2).Draw(t, "lag") != 0 {
				tk[gi] = rapid.IntRange(0, 1).Draw(t, "lagn") // the lagging group delivers late
			}
			tot[gi] += tk[gi]
		}
		c.Ticks = append(c.Ticks, tk)
	}
	if ng > 1 && !c.Ring && rapid.IntRange(0, 39).Draw(t, "backlog") == 0 {
		// one group runs thousands of packets ahead of another over several reads before that one catches up: nothing is lost,
		// and everything must come out
		ahead := rapid.IntRange(1200, 1700).Draw(t, "ahead")
		c.Ticks = nil
		tot = make([]int, ng)
		for k := 0; k < 3; k++ {
			tk := make([]int, ng)
			tk[0] = ahead
			c.Ticks = append(c.Ticks, tk)
			tot[0] += ahead
		}
		tk := make([]int, ng)
		for gi := 1; gi < ng; gi++ {
			tk[gi] = 3 * ahead
			tot[gi] += 3 * ahead
		}
		c.Ticks = append(c.Ticks, tk)
		last := make([]int, ng)
		for gi := range last {
			last[gi] = 3
			tot[gi] += 3
		}
		c.Ticks = append(c.Ticks, last)
	}
	for gi := 0; gi < ng; gi++ {
		maxpos := tot[gi] + 6
		switch rapid.IntRange(0, 4).Draw(t, "lossclass") {
		case 0: // none
		case 1: // one
			c.Lost[gi] = []int{rapid.IntRange(0, maxpos).Draw(t, "lost")}
		case 2: // a run
			s := rapid.IntRange(0, maxpos).Draw(t, "lost")
			for i := 0; i < rapid.IntRange(2, 5).Draw(t, "runlen"); i++ {
				c.Lost[gi] = append(c.Lost[gi], s+i)
			}
		default: // scattered
			n := rapid.IntRange(1, 6).Draw(t, "nlost")
			seen := map[int]bool{}
			for i := 0; i < n; i++ {
				p := rapid.IntRange(0, maxpos).Draw(t, "lost")
				if !seen[p] {
					seen[p] = true
					c.Lost[gi] = append(c.Lost[gi], p)
				}
			}
		}
	}
	return c
}

func TestVerif_C03(t *testing.T) { vCheck(t, "C03", c03Gen, c03Run) }
