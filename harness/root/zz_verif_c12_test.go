//go:build verif

package dastard

// C12: phase unwrapping keeps the signal modulo flux quanta and is block independent.
// The unwrappers are obtained through the real call sites (NewAbacoGroup for Abaco option sets,
// RoachDevice.samplePacket for ROACH) and driven with generated 16-bit sequences cut into calls.
// Oracle: an integer reference of the *statement* (congruence modulo one quantum, step inside the
// half-quantum window around the documented bias of 0 or +-0.38 quantum, reset discipline), plus
// the differential "one call == any split into calls".

import (
	"bytes"
	"encoding/binary"
	"fmt"
	"math"
	"net"
	"os"
	"reflect"
	"strconv"
	"sync"
	"testing"
	"unsafe"

	"pgregory.net/rapid"
)

type c12Seg struct {
	Start  int   `json:"start"`  // raw start value
	Step   int   `json:"step"`   // raw increment per sample
	N      int   `json:"n"`      // samples
	Jitter []int `json:"jitter"` // added cyclically
}

type c12Case struct {
	Roach      bool     `json:"roach"`
	Direct     bool     `json:"direct,omitempty"`   // constructor called directly with (Frac, Drop, BiasFrac)
	Frac       int      `json:"frac,omitempty"`     // fraction bits (direct mode)
	Drop       int      `json:"drop,omitempty"`     // low bits dropped (direct mode)
	BiasFrac   float64  `json:"biasfrac,omitempty"` // bias as a fraction of one quantum (direct mode)
	Rescale    bool     `json:"rescale"`
	Unwrap     bool     `json:"unwrap"`
	Bias       bool     `json:"bias"`
	PulseSign  int      `json:"pulsesign"`
	ResetAfter int      `json:"resetafter"`
	Invert     bool     `json:"invert"`
	Segs       []c12Seg `json:"segs"`
	Chunks     []int    `json:"chunks"` // lengths of successive calls, used cyclically
}

func c12Gen(t *rapid.T) c12Case {
	var c c12Case
	c.Roach = rapid.IntRange(0, 4).Draw(t, "roach") == 0
	c.PulseSign = rapid.SampledFrom([]int{1, -1, 1, -1, 0, 5, -3}).Draw(t, "pulsesign")
	c.Bias = rapid.Bool().Draw(t, "bias")
	if c.Roach {
		c.Rescale, c.Unwrap, c.ResetAfter = true, true, 20000
	} else {
		c.Rescale = rapid.IntRange(0, 5).Draw(t, "rescale") != 0
		if c.Rescale {
			c.Unwrap = rapid.IntRange(0, 5).Draw(t, "unwrap") != 0
		}
		c.Invert = rapid.Bool().Draw(t, "invert")
		c.ResetAfter = rapid.SampledFrom([]int{1, 2, 3, 5, 8, 20, 100, 1000, 30000}).Draw(t, "resetafter")
	}
	frac, drop := 16, 4
	if c.Roach {
		frac, drop = 14, 2
	} else if rapid.IntRange(0, 4).Draw(t, "direct") == 0 {
		// the public constructor with arbitrary geometry: any fraction bits / dropped bits / bias fraction
		c.Direct = true
		c.Rescale, c.Unwrap = true, rapid.IntRange(0, 5).Draw(t, "unwrapd") != 0
		c.Frac = rapid.IntRange(12, 16).Draw(t, "frac")
		c.Drop = rapid.IntRange(1, 8).Draw(t, "drop")
		if c.Drop > c.Frac-2 {
			c.Drop = c.Frac - 2
		}
		c.BiasFrac = 0
		if c.Bias {
			c.BiasFrac = rapid.SampledFrom([]float64{0.38, -0.38, 0.1, -0.25, 0.45, -0.45, 0.01}).Draw(t, "biasfrac")
		}
		frac, drop = c.Frac, c.Drop
	}
	Q := 1 << frac // one quantum in raw units
	_ = drop
	nseg := rapid.IntRange(1, 6).Draw(t, "nseg")
	long := c.ResetAfter >= 1000 && rapid.IntRange(0, 7).Draw(t, "long") == 0
	for i := 0; i < nseg; i++ {
		var s c12Seg
		s.Start = rapid.IntRange(0, 65535).Draw(t, "start")
		switch rapid.IntRange(0, 7).Draw(t, "kind") {
		case 0: // constant
			s.Step = 0
		case 1: // slow ramp, either direction: wraps are what must be removed
			s.Step = rapid.IntRange(-Q/16, Q/16).Draw(t, "step")
		case 2: // near half a quantum per sample
			s.Step = rapid.SampledFrom([]int{1, -1}).Draw(t, "sgn") * (Q/2 + rapid.IntRange(-40, 40).Draw(t, "d"))
		case 3: // near the edges of the biased window (0.38 +- 0.5 quantum)
			edge := rapid.SampledFrom([]float64{0.88, -0.12, 0.12, -0.88}).Draw(t, "edge")
			s.Step = int(math.Round(edge*float64(Q))) + rapid.IntRange(-40, 40).Draw(t, "d")
		case 4: // fast ramp
			s.Step = rapid.IntRange(-Q, Q).Draw(t, "step")
		default: // arbitrary
			s.Step = rapid.IntRange(-65535, 65535).Draw(t, "step")
		}
		s.N = rapid.IntRange(1, 40).Draw(t, "n")
		if long && i == nseg-1 {
			s.N = c.ResetAfter + rapid.IntRange(-3, 60).Draw(t, "longn")
			if c.ResetAfter >= 20000 {
				s.Step = rapid.SampledFrom([]int{0, 1, -1, 3}).Draw(t, "longstep")
			}
		}
		nj := rapid.IntRange(0, 6).Draw(t, "nj")
		for j := 0; j < nj; j++ {
			if rapid.Bool().Draw(t, "bigj") {
				s.Jitter = append(s.Jitter, rapid.IntRange(-65535, 65535).Draw(t, "j"))
			} else {
				s.Jitter = append(s.Jitter, rapid.IntRange(-50, 50).Draw(t, "j"))
			}
		}
		c.Segs = append(c.Segs, s)
	}
	nch := rapid.IntRange(1, 5).Draw(t, "nchunks")
	for i := 0; i < nch; i++ {
		if rapid.IntRange(0, 3).Draw(t, "bigchunk") == 0 {
			c.Chunks = append(c.Chunks, rapid.IntRange(1, 30000).Draw(t, "chunk"))
		} else {
			c.Chunks = append(c.Chunks, rapid.IntRange(1, 17).Draw(t, "chunk"))
		}
	}
	return c
}

func (c c12Case) sequence() []RawType {
	var out []RawType
	for _, s := range c.Segs {
		for i := 0; i < s.N; i++ {
			v := s.Start + i*s.Step
			if len(s.Jitter) > 0 {
				v += s.Jitter[i%len(s.Jitter)]
			}
			out = append(out, RawType(uint16(v)))
		}
	}
	return out
}

// c12RoachTemplates caches one PhaseUnwrapper value per ROACH option set, built by the real
// RoachDevice.samplePacket from a datagram sent over loopback.
var (
	c12RoachMu        sync.Mutex
	c12RoachTemplates = map[string]PhaseUnwrapper{}
)

func c12RoachUnwrapper(bias bool, pulseSign int) *PhaseUnwrapper {
	key := fmt.Sprintf("%v/%d", bias, pulseSign)
	c12RoachMu.Lock()
	defer c12RoachMu.Unlock()
	if u, ok := c12RoachTemplates[key]; ok {
		cp := u
		return &cp
	}
	shard, _ := strconv.Atoi(os.Getenv("VERIF_SHARD"))
	var dev *RoachDevice
	var err error
	var port int
	for try := 0; try < 50; try++ {
		port = 41000 + (shard%64)*100 + (os.Getpid()+try)%100
		func() {
			defer func() { // NewRoachDevice dereferences a nil conn when the port is taken
				if r := recover(); r != nil {
					err = fmt.Errorf("%v", r)
				}
			}()
			dev, err = NewRoachDevice(fmt.Sprintf("127.0.0.1:%d", port), 10000.0)
		}()
		if err == nil {
			break
		}
	}
	if err != nil {
		panic("harness: cannot open loopback roach device: " + err.Error())
	}
	defer dev.conn.Close()
	dev.unwrapOpts = AbacoUnwrapOptions{RescaleRaw: true, Unwrap: true, Bias: bias, PulseSign: pulseSign, ResetAfter: 20000}
	// one packet: 1 channel, 1 sample, 2-byte words
	buf := new(bytes.Buffer)
	binary.Write(buf, binary.BigEndian, packetHeader{Nchan: 1, Nsamp: 1, Flags: 1, Sampnum: 0})
	binary.Write(buf, binary.BigEndian, uint16(0))
	conn, err := net.Dial("udp", fmt.Sprintf("127.0.0.1:%d", port))
	if err != nil {
		panic("harness: dial: " + err.Error())
	}
	conn.Write(buf.Bytes())
	conn.Close()
	if err := dev.samplePacket(); err != nil {
		panic("harness: samplePacket: " + err.Error())
	}
	// (through reflection, so that the harness still builds if the device keeps its unwrappers by value rather than by pointer)
	el := reflect.ValueOf(dev.unwrap).Index(0)
	if el.Kind() == reflect.Ptr {
		el = el.Elem()
	}
	tmpl := *(*PhaseUnwrapper)(unsafe.Pointer(el.UnsafeAddr()))
	c12RoachTemplates[key] = tmpl
	cp := tmpl
	return &cp
}

func (c c12Case) newUnwrapper() *PhaseUnwrapper {
	if c.Roach {
		return c12RoachUnwrapper(c.Bias, c.PulseSign)
	}
	if c.Direct {
		level := int(math.Round(c.BiasFrac * float64(int(1)<<uint(c.Frac))))
		return NewPhaseUnwrapper(uint(c.Frac), uint(c.Drop), c.Unwrap, level, c.ResetAfter, c.PulseSign, c.Invert)
	}
	opt := AbacoUnwrapOptions{RescaleRaw: c.Rescale, Unwrap: c.Unwrap, Bias: c.Bias, ResetAfter: c.ResetAfter, PulseSign: c.PulseSign}
	if c.Invert {
		opt.InvertChan = []int{7}
	}
	g := NewAbacoGroup(GroupIndex{Firstchan: 7, Nchan: 1}, opt)
	return g.unwrap[0]
}

func c12Run(c c12Case) (v vVerdict) {
	x := c.sequence()
	if len(x) == 0 || len(c.Chunks) == 0 {
		return v
	}
	for _, ch := range c.Chunks {
		if ch < 1 {
			return v
		}
	}
	// run A: one call
	a := append([]RawType(nil), x...)
	c.newUnwrapper().UnwrapInPlace(&a)
	// run B: split into calls
	b := append([]RawType(nil), x...)
	ub := c.newUnwrapper()
	ncalls := 0
	for pos, k := 0, 0; pos < len(b); k++ {
		n := c.Chunks[k%len(c.Chunks)]
		if pos+n > len(b) {
			n = len(b) - pos
		}
		part := b[pos : pos+n : pos+n]
		ub.UnwrapInPlace(&part)
		if len(part) != n {
			return vFailf("length-changed", "call %d changed the slice length %d -> %d", k, n, len(part))
		}
		pos += n
		ncalls++
	}
	if len(a) != len(x) {
		return vFailf("length-changed", "single call changed the length %d -> %d", len(x), len(a))
	}
	for i := range a {
		if a[i] != b[i] {
			return vFailf("split-dependent", "sample %d: one call gives %d, %d calls give %d (input %d)", i, a[i], ncalls, b[i], x[i])
		}
	}

	// reference of the statement
	frac, drop := uint(16), uint(0)
	if c.Roach {
		frac, drop = 14, 2
	} else if c.Direct {
		if c.Frac < 8 || c.Frac > 16 || c.Drop < 1 || c.Drop > c.Frac-2 || math.Abs(c.BiasFrac) > 0.45 {
			return v
		}
		frac, drop = uint(c.Frac), uint(c.Drop)
	} else if c.Rescale {
		drop = 4
	}
	mask := uint16(0xffff)
	if frac < 16 {
		mask = uint16(1)<<frac - 1
	}
	inv := uint16(0)
	if c.Invert {
		inv = 0xffff
	}
	enable := c.Unwrap
	val := func(i int) uint16 { return ((uint16(x[i]) ^ inv) & mask) >> drop }
	if drop == 0 {
		// one quantum is the full 16-bit range: output is the (inverted) input itself
		for i := range a {
			if uint16(a[i]) != uint16(x[i])^inv {
				return vFailf("no-drop-value", "sample %d: got %d want %d", i, a[i], uint16(x[i])^inv)
			}
		}
		return v
	}
	if !enable {
		for i := range a {
			if uint16(a[i]) != val(i) {
				return vFailf("no-unwrap-value", "sample %d: got %d want %d (input %d)", i, a[i], val(i), x[i])
			}
		}
		return v
	}
	Q := int(1) << (frac - drop)
	bias := 0.0
	if c.Direct {
		bias = c.BiasFrac * float64(Q)
	} else if c.Bias {
		bias = 0.38 * float64(Q)
		if c.PulseSign < 0 {
			bias = -bias
		}
	}
	// home offset: output of a fresh unwrapper for a zero sample (no step, so no unwrapping can be involved)
	probe := []RawType{RawType(inv)}
	c.newUnwrapper().UnwrapInPlace(&probe)
	home := uint16(probe[0])
	if int(home)%Q != 0 {
		return vFailf("home-not-quantum", "home offset %d is not a whole number of quanta (%d)", home, Q)
	}
	slack := 1.0 // floor vs. round of the bias level
	if c.Direct {
		slack = 1.5 // rounding to raw units, then flooring by the bit drop
	}
	N := c.ResetAfter
	if N <= 0 {
		return v
	}
	prevOut := home
	awayRun := 0
	unwraps, resets := 0, 0
	prevOff := home
	for i := range a {
		out := uint16(a[i])
		off := out - val(i)
		if int(off)%Q != 0 {
			return vFailf("not-congruent", "sample %d: output %d minus input value %d is not a whole number of quanta (%d)", i, out, val(i), Q)
		}
		step := float64(int16(out - prevOut))
		inWindow := math.Abs(step-bias) <= float64(Q)/2+slack
		if !inWindow {
			// must be a legitimate automatic reset
			if off != home {
				return vFailf("step-outside-window", "sample %d: output step %v is not within half a quantum (%d/2) of the bias %.1f and the output is not at the home offset", i, step, Q, bias)
			}
			if awayRun != N && awayRun != N-1 {
				return vFailf("reset-timing", "sample %d: jump back to the home offset after %d consecutive samples away from it, configured %d", i, awayRun, N)
			}
			resets++
		} else if off != prevOff {
			unwraps++
		}
		if off == home {
			awayRun = 0
		} else {
			awayRun++
			if awayRun > N {
				return vFailf("reset-missing", "sample %d: %d consecutive samples away from the home offset, configured reset after %d", i, awayRun, N)
			}
		}
		prevOut, prevOff = out, off
	}
	v.NonTrivial = unwraps > 0 && ncalls >= 2
	if resets > 0 {
		v.Classes = append(v.Classes, "auto-reset")
	}
	if unwraps > 0 {
		v.Classes = append(v.Classes, "wrap-removed")
	}
	if c.Roach {
		v.Classes = append(v.Classes, "roach")
		if resets > 0 {
			v.Classes = append(v.Classes, "roach-auto-reset")
		}
	}
	if c.Direct {
		v.Classes = append(v.Classes, "direct-constructor")
	}
	if c.Bias {
		v.Classes = append(v.Classes, "biased")
	}
	return v
}

func TestVerif_C12(t *testing.T) { vCheck(t, "C12", c12Gen, c12Run) }
