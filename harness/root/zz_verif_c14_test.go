//go:build verif

package dastard

// C14: published record and summary messages follow doc/BINARY_FORMATS.md.
// A batch of generated records is converted by the real message builders (all messages are built
// before any is decoded, as the publisher goroutines do) and decoded by a reader written from the
// document.  The same batch then travels through two real startSocket() PUB sockets to SUB sockets:
// one subscribed to everything, one subscribed to the 2-byte prefix of a single channel.

import (
	"encoding/binary"
	"fmt"
	"math"
	"os"
	"sync"
	"testing"
	"time"

	"github.com/pebbe/zmq4"
	"pgregory.net/rapid"
)

type c14Rec struct {
	Chan     int       `json:"chan"`
	Signed   bool      `json:"signed"`
	Pre      int       `json:"pre"`
	N        int       `json:"n"`    // number of samples
	Seed     int       `json:"seed"` // samples are a deterministic function of (seed, i)
	PeriodB  uint32    `json:"period_bits"`
	VoltsB   uint32    `json:"volts_bits"`
	TimeNs   int64     `json:"time_ns"`
	Frame    int64     `json:"frame"`
	Analysis [5]uint64 `json:"analysis_bits"` // float64 bit patterns: mean, peak, rms, avg, residual
	Coefs    []uint64  `json:"coef_bits"`
}

type c14Case struct {
	Recs []c14Rec `json:"recs"`
}

const c14SubChan = 0x0207 // the channel the selective subscriber listens to
const c14Sentinel = 65535

func c14GenF64Bits(t *rapid.T, label string) uint64 {
	switch rapid.IntRange(0, 9).Draw(t, label+"k") {
	case 0:
		return math.Float64bits(math.NaN())
	case 1:
		return math.Float64bits(math.Inf(1))
	case 2:
		return math.Float64bits(math.Inf(-1))
	case 3:
		return math.Float64bits(0)
	case 4:
		return math.Float64bits(1e300) // overflows float32
	case 5:
		return math.Float64bits(-1e-300)
	default:
		return math.Float64bits(rapid.Float64Range(-70000, 70000).Draw(t, label))
	}
}

func c14GenRec(t *rapid.T) c14Rec {
	var r c14Rec
	switch rapid.IntRange(0, 7).Draw(t, "chanclass") {
	case 0:
		r.Chan = 0
	case 1:
		r.Chan = 65534
	case 2, 3:
		r.Chan = c14SubChan
	case 4:
		r.Chan = rapid.SampledFrom([]int{0x0107, 0x0702, 0x0200, 0x0007, 0x0208, 0x0307}).Draw(t, "neighbour")
	default:
		r.Chan = rapid.IntRange(0, 65534).Draw(t, "chan")
	}
	r.Signed = rapid.Bool().Draw(t, "signed")
	switch rapid.IntRange(0, 7).Draw(t, "lenclass") {
	case 0:
		r.N = 0
	case 1:
		r.N = 1
	case 2:
		r.N = rapid.IntRange(1000, 5000).Draw(t, "n")
	default:
		r.N = rapid.IntRange(2, 200).Draw(t, "n")
	}
	r.Pre = rapid.IntRange(0, 70000).Draw(t, "pre")
	r.Seed = rapid.IntRange(0, 1<<20).Draw(t, "seed")
	if rapid.IntRange(0, 3).Draw(t, "pclass") == 0 {
		r.PeriodB = rapid.Uint32().Draw(t, "periodbits")
		r.VoltsB = rapid.Uint32().Draw(t, "voltsbits")
	} else {
		r.PeriodB = math.Float32bits(float32(rapid.Float64Range(1e-9, 1).Draw(t, "period")))
		r.VoltsB = math.Float32bits(float32(rapid.Float64Range(1e-9, 10).Draw(t, "volts")))
	}
	switch rapid.IntRange(0, 6).Draw(t, "timeclass") {
	case 0:
		r.TimeNs = 0
	case 1:
		r.TimeNs = rapid.Int64Range(math.MinInt64, -1).Draw(t, "tneg")
	case 2:
		r.TimeNs = math.MaxInt64 - rapid.Int64Range(0, 1000).Draw(t, "tmax")
	default:
		r.TimeNs = rapid.Int64Range(1, math.MaxInt64).Draw(t, "t")
	}
	switch rapid.IntRange(0, 6).Draw(t, "frameclass") {
	case 0:
		r.Frame = 0
	case 1:
		r.Frame = math.MaxInt64 - rapid.Int64Range(0, 10).Draw(t, "fmax")
	case 2:
		r.Frame = rapid.Int64Range(math.MinInt64, -1).Draw(t, "fneg")
	case 3:
		r.Frame = int64(1)<<uint(rapid.IntRange(31, 62).Draw(t, "fbit")) + rapid.Int64Range(-2, 2).Draw(t, "fd")
	default:
		r.Frame = rapid.Int64Range(1, math.MaxInt64).Draw(t, "f")
	}
	for i := range r.Analysis {
		r.Analysis[i] = c14GenF64Bits(t, fmt.Sprintf("a%d", i))
	}
	nc := 0
	switch rapid.IntRange(0, 4).Draw(t, "coefclass") {
	case 0:
		nc = 0
	case 1:
		nc = rapid.IntRange(7, 64).Draw(t, "nc")
	default:
		nc = rapid.IntRange(1, 6).Draw(t, "nc")
	}
	for i := 0; i < nc; i++ {
		r.Coefs = append(r.Coefs, c14GenF64Bits(t, "c"))
	}
	return r
}

func c14Gen(t *rapid.T) c14Case {
	n := rapid.IntRange(1, 5).Draw(t, "nrecs")
	var c c14Case
	for i := 0; i < n; i++ {
		c.Recs = append(c.Recs, c14GenRec(t))
	}
	return c
}

func (r c14Rec) sample(i int) uint16 { return uint16(r.Seed*2654435761 + i*40503 + (i*i)>>3) }

func (r c14Rec) record() *DataRecord {
	rec := &DataRecord{channelIndex: r.Chan, signed: r.Signed, presamples: r.Pre,
		sampPeriod: math.Float32frombits(r.PeriodB), voltsPerArb: math.Float32frombits(r.VoltsB),
		trigTime: time.Unix(0, r.TimeNs), trigFrame: FrameIndex(r.Frame)}
	rec.data = make([]RawType, r.N)
	for i := range rec.data {
		rec.data[i] = RawType(r.sample(i))
	}
	rec.pretrigMean = math.Float64frombits(r.Analysis[0])
	rec.peakValue = math.Float64frombits(r.Analysis[1])
	rec.pulseRMS = math.Float64frombits(r.Analysis[2])
	rec.pulseAverage = math.Float64frombits(r.Analysis[3])
	rec.residualStdDev = math.Float64frombits(r.Analysis[4])
	if len(r.Coefs) > 0 {
		rec.modelCoefs = make([]float64, len(r.Coefs))
		for i, b := range r.Coefs {
			rec.modelCoefs[i] = math.Float64frombits(b)
		}
	}
	return rec
}

func c14F32Same(gotBits uint32, want float32) bool {
	if want != want { // NaN: any NaN
		g := math.Float32frombits(gotBits)
		return g != g
	}
	return gotBits == math.Float32bits(want)
}

// c14DecodeRecord checks a 2-frame record message against doc/BINARY_FORMATS.md.
func c14DecodeRecord(msg [][]byte, r c14Rec) string {
	if len(msg) != 2 {
		return fmt.Sprintf("record message has %d frames, want 2", len(msg))
	}
	h, p := msg[0], msg[1]
	if len(h) != 36 {
		return fmt.Sprintf("record header is %d bytes, want 36", len(h))
	}
	le := binary.LittleEndian
	if got := le.Uint16(h[0:]); int(got) != r.Chan {
		return fmt.Sprintf("channel %d, want %d", got, r.Chan)
	}
	if h[2] != 0 {
		return fmt.Sprintf("header version %d, want 0", h[2])
	}
	wantType := byte(3)
	if r.Signed {
		wantType = 2
	}
	if h[3] != wantType {
		return fmt.Sprintf("data type code %d, want %d (signed=%v)", h[3], wantType, r.Signed)
	}
	if got := le.Uint32(h[4:]); got != uint32(r.Pre) {
		return fmt.Sprintf("pre-trigger count %d, want %d", got, r.Pre)
	}
	if got := le.Uint32(h[8:]); got != uint32(r.N) {
		return fmt.Sprintf("sample count %d, want %d", got, r.N)
	}
	if !c14F32Same(le.Uint32(h[12:]), math.Float32frombits(r.PeriodB)) {
		return fmt.Sprintf("sample period bits %#x, want %#x", le.Uint32(h[12:]), r.PeriodB)
	}
	if !c14F32Same(le.Uint32(h[16:]), math.Float32frombits(r.VoltsB)) {
		return fmt.Sprintf("volts-per-arb bits %#x, want %#x", le.Uint32(h[16:]), r.VoltsB)
	}
	if got := int64(le.Uint64(h[20:])); got != r.TimeNs {
		return fmt.Sprintf("trigger time %d ns, want %d", got, r.TimeNs)
	}
	if got := int64(le.Uint64(h[28:])); got != r.Frame {
		return fmt.Sprintf("trigger frame %d, want %d", got, r.Frame)
	}
	if len(p) != 2*r.N {
		return fmt.Sprintf("payload is %d bytes, want %d", len(p), 2*r.N)
	}
	for i := 0; i < r.N; i++ {
		if got := le.Uint16(p[2*i:]); got != r.sample(i) {
			return fmt.Sprintf("sample %d is %d, want %d", i, got, r.sample(i))
		}
	}
	return ""
}

func c14DecodeSummary(msg [][]byte, r c14Rec) string {
	if len(msg) != 2 {
		return fmt.Sprintf("summary message has %d frames, want 2", len(msg))
	}
	h, p := msg[0], msg[1]
	if len(h) != 48 {
		return fmt.Sprintf("summary header is %d bytes, want 48", len(h))
	}
	le := binary.LittleEndian
	if got := le.Uint16(h[0:]); int(got) != r.Chan {
		return fmt.Sprintf("channel %d, want %d", got, r.Chan)
	}
	if got := le.Uint16(h[2:]); got != 0 {
		return fmt.Sprintf("header version %d, want 0", got)
	}
	if got := le.Uint32(h[4:]); got != uint32(r.Pre) {
		return fmt.Sprintf("pre-trigger count %d, want %d", got, r.Pre)
	}
	if got := le.Uint32(h[8:]); got != uint32(r.N) {
		return fmt.Sprintf("sample count %d, want %d", got, r.N)
	}
	names := []string{"pretrigger mean", "peak value", "pulse RMS", "pulse average", "residual std dev"}
	for k := 0; k < 5; k++ {
		want := float32(math.Float64frombits(r.Analysis[k]))
		if !c14F32Same(le.Uint32(h[12+4*k:]), want) {
			return fmt.Sprintf("%s bits %#x, want %#x (%v)", names[k], le.Uint32(h[12+4*k:]), math.Float32bits(want), want)
		}
	}
	if got := int64(le.Uint64(h[32:])); got != r.TimeNs {
		return fmt.Sprintf("trigger time %d ns, want %d", got, r.TimeNs)
	}
	if got := int64(le.Uint64(h[40:])); got != r.Frame {
		return fmt.Sprintf("trigger frame %d, want %d", got, r.Frame)
	}
	if len(p) != 8*len(r.Coefs) {
		return fmt.Sprintf("payload is %d bytes, want %d", len(p), 8*len(r.Coefs))
	}
	for i, b := range r.Coefs {
		got := le.Uint64(p[8*i:])
		w := math.Float64frombits(b)
		if w != w {
			g := math.Float64frombits(got)
			if g == g {
				return fmt.Sprintf("coefficient %d is %v, want NaN", i, g)
			}
		} else if got != b {
			return fmt.Sprintf("coefficient %d bits %#x, want %#x", i, got, b)
		}
	}
	return ""
}

// ---- end-to-end plumbing: one pair of PUB sockets and four SUB sockets per process ----

type c14Net struct {
	recChan, sumChan       chan []*DataRecord
	recAll, recOne         *zmq4.Socket
	sumAll, sumOne         *zmq4.Socket
	ready                  bool
	err                    string
	counter                int64
}

var (
	c14NetOnce sync.Once
	c14N       c14Net
)

func c14Prefix(ch int) string { return string([]byte{byte(ch), byte(ch >> 8)}) }

func c14Setup() {
	open := func(conv func(*DataRecord) [][]byte) (chan []*DataRecord, int) {
		for try := 0; try < 200; try++ {
			port := 20000 + (os.Getpid()*13+try*101+int(time.Now().UnixNano()%97))%30000
			ch, err := startSocket(port, conv)
			if err == nil {
				return ch, port
			}
		}
		return nil, 0
	}
	var rp, sp int
	c14N.recChan, rp = open(messageRecords)
	c14N.sumChan, sp = open(messageSummaries)
	if c14N.recChan == nil || c14N.sumChan == nil {
		c14N.err = "could not bind publisher sockets"
		return
	}
	sub := func(port int, prefixes ...string) *zmq4.Socket {
		s, err := zmq4.NewSocket(zmq4.SUB)
		if err != nil {
			c14N.err = err.Error()
			return nil
		}
		s.SetRcvhwm(100000)
		s.SetLinger(0)
		s.SetRcvtimeo(200 * time.Millisecond)
		for _, p := range prefixes {
			s.SetSubscribe(p)
		}
		if err := s.Connect(fmt.Sprintf("tcp://127.0.0.1:%d", port)); err != nil {
			c14N.err = err.Error()
			return nil
		}
		return s
	}
	c14N.recAll = sub(rp, "")
	c14N.recOne = sub(rp, c14Prefix(c14SubChan), c14Prefix(c14Sentinel))
	c14N.sumAll = sub(sp, "")
	c14N.sumOne = sub(sp, c14Prefix(c14SubChan), c14Prefix(c14Sentinel))
	if c14N.err != "" {
		return
	}
	// handshake: publish sentinels until every subscriber has seen one (slow-joiner), then drain
	deadline := time.Now().Add(20 * time.Second)
	seen := [4]bool{}
	socks := []*zmq4.Socket{c14N.recAll, c14N.recOne, c14N.sumAll, c14N.sumOne}
	for time.Now().Before(deadline) {
		probe := []*DataRecord{{channelIndex: c14Sentinel, trigFrame: -1}}
		c14N.recChan <- probe
		c14N.sumChan <- probe
		all := true
		for i, s := range socks {
			if !seen[i] {
				s.SetRcvtimeo(50 * time.Millisecond)
				if m, err := s.RecvMessageBytes(0); err == nil && len(m) > 0 {
					seen[i] = true
				}
			}
			all = all && seen[i]
		}
		if all {
			break
		}
	}
	for i := range seen {
		if !seen[i] {
			c14N.err = "subscriber handshake timed out"
			return
		}
	}
	// flush: send a numbered sentinel and read everything up to it
	c14N.counter = 1000
	if msg := c14Flush(); msg != "" {
		c14N.err = msg
		return
	}
	c14N.ready = true
}

// c14RecvUntil reads messages up to the sentinel carrying frame number `mark`.
func c14RecvUntil(s *zmq4.Socket, mark int64) ([][][]byte, string) {
	var out [][][]byte
	s.SetRcvtimeo(10 * time.Second)
	for {
		m, err := s.RecvMessageBytes(0)
		if err != nil {
			return out, "receive: " + err.Error()
		}
		if len(m) >= 1 && len(m[0]) >= 36 && binary.LittleEndian.Uint16(m[0]) == c14Sentinel {
			h := m[0]
			fr := int64(binary.LittleEndian.Uint64(h[len(h)-8:]))
			if fr == mark {
				return out, ""
			}
			if fr < mark {
				// a stale handshake probe, or the end marker of an earlier batch that a receive time-out left unread on this
				// socket: whatever came before it belongs to that earlier batch, not to this one
				out = nil
				continue
			}
		}
		out = append(out, m)
	}
}

func c14Flush() string {
	c14N.counter++
	mark := c14N.counter
	s := []*DataRecord{{channelIndex: c14Sentinel, trigFrame: FrameIndex(mark)}}
	c14N.recChan <- s
	c14N.sumChan <- s
	first := ""
	for _, sock := range []*zmq4.Socket{c14N.recAll, c14N.recOne, c14N.sumAll, c14N.sumOne} {
		if _, msg := c14RecvUntil(sock, mark); msg != "" && first == "" {
			first = msg // (go on: the other sockets must be read up to the marker all the same)
		}
	}
	return first
}

func c14Run(c c14Case) (v vVerdict) {
	if len(c.Recs) == 0 {
		return v
	}
	for _, r := range c.Recs {
		if r.Chan < 0 || r.Chan >= c14Sentinel || r.N < 0 || r.N > 20000 || r.Pre < 0 {
			return v
		}
	}
	// direct: build every message first, decode afterwards
	recs := make([]*DataRecord, len(c.Recs))
	rmsgs := make([][][]byte, len(c.Recs))
	smsgs := make([][][]byte, len(c.Recs))
	for i, r := range c.Recs {
		recs[i] = r.record()
		rmsgs[i] = messageRecords(recs[i])
		smsgs[i] = messageSummaries(recs[i])
	}
	for i, r := range c.Recs {
		if msg := c14DecodeRecord(rmsgs[i], r); msg != "" {
			return vFailf("record-layout", "record message %d of %d (built before decoding): %s", i, len(c.Recs), msg)
		}
		if msg := c14DecodeSummary(smsgs[i], r); msg != "" {
			return vFailf("summary-layout", "summary message %d of %d (built before decoding): %s", i, len(c.Recs), msg)
		}
	}
	nontrivial := false
	for _, r := range c.Recs {
		if r.N > 0 && r.Chan != 0 && r.Pre != 0 && r.TimeNs != 0 && r.Frame != 0 && len(r.Coefs) > 0 {
			nontrivial = true
		}
	}
	v.NonTrivial = nontrivial
	if len(c.Recs) > 1 {
		v.Classes = append(v.Classes, "batch")
	}

	// end to end
	if os.Getenv("VERIF_C14_NO_E2E") != "" {
		return v
	}
	c14NetOnce.Do(c14Setup)
	if !c14N.ready {
		v.Inconclusive = "zmq plumbing: " + c14N.err
		return v
	}
	c14N.counter++
	mark := c14N.counter
	batch := append(append([]*DataRecord(nil), recs...), &DataRecord{channelIndex: c14Sentinel, trigFrame: FrameIndex(mark)})
	c14N.recChan <- batch
	c14N.sumChan <- batch
	var sel []c14Rec
	for _, r := range c.Recs {
		if r.Chan == c14SubChan {
			sel = append(sel, r)
		}
	}
	type lane struct {
		name string
		sock *zmq4.Socket
		want []c14Rec
		dec  func([][]byte, c14Rec) string
	}
	for _, ln := range []lane{
		{"record/all", c14N.recAll, c.Recs, c14DecodeRecord},
		{"record/one-channel", c14N.recOne, sel, c14DecodeRecord},
		{"summary/all", c14N.sumAll, c.Recs, c14DecodeSummary},
		{"summary/one-channel", c14N.sumOne, sel, c14DecodeSummary},
	} {
		got, msg := c14RecvUntil(ln.sock, mark)
		if msg != "" {
			v.Inconclusive = ln.name + ": " + msg
			// resynchronise for the following cases
			c14Flush()
			return v
		}
		if len(got) != len(ln.want) {
			return vFailf("e2e-count", "%s subscriber received %d messages, want %d", ln.name, len(got), len(ln.want))
		}
		for i := range got {
			if m := ln.dec(got[i], ln.want[i]); m != "" {
				return vFailf("e2e-layout", "%s subscriber, message %d: %s", ln.name, i, m)
			}
		}
	}
	v.Classes = append(v.Classes, "end-to-end")
	if len(sel) > 0 {
		v.Classes = append(v.Classes, "selective-subscription-hit")
	}
	return v
}

func TestVerif_C14(t *testing.T) { vCheck(t, "C14", c14Gen, c14Run) }
