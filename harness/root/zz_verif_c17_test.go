//go:build verif

package dastard

// C17: a running acquisition is free of data races.  The test binary is built with the Go race
// detector; generated single-client workloads over running pipelines (the life-cycle histories of
// C10 on scripted / simulated / Abaco sources, the request histories of C11, the Lancero reader with
// mix changes of C04, the status publisher of C16) are executed, and every new "WARNING: DATA RACE"
// block in the detector's log is turned into a failure whose signature is the unordered pair of the
// innermost dastard frames of the two conflicting accesses.

import (
	"fmt"
	"os"
	"sort"
	"strings"
	"testing"

	"pgregory.net/rapid"
)

type c17Case struct {
	Kind string    `json:"kind"` // lifecycle requests lancero updater
	C10  *c10Case  `json:"c10,omitempty"`
	C11  *c11Case  `json:"c11,omitempty"`
	C04  *c04Case  `json:"c04,omitempty"`
	C16  *c16Case  `json:"c16,omitempty"`
	C07A *c07ACase `json:"c07a,omitempty"`
	C07B *c07BCase `json:"c07b,omitempty"`
}

func c17LogPath() string {
	p := os.Getenv("VERIF_RACE_LOG")
	if p == "" {
		return ""
	}
	return fmt.Sprintf("%s.%d", p, os.Getpid())
}

func c17LogSize() int64 {
	if st, err := os.Stat(c17LogPath()); err == nil {
		return st.Size()
	}
	return 0
}

// c17Signatures parses race reports into "frameA~frameB" signatures (innermost non-harness dastard frames).
func c17Signatures(text string) (sigs []string, first string) {
	for _, blk := range strings.Split(text, "WARNING: DATA RACE")[1:] {
		if i := strings.Index(blk, "=================="); i >= 0 {
			blk = blk[:i]
		}
		var frames []string
		lines := strings.Split(blk, "\n")
		inAccess := false
		got := false
		for i := 0; i < len(lines); i++ {
			l := lines[i]
			t := strings.TrimSpace(l)
			if strings.HasPrefix(t, "Write at") || strings.HasPrefix(t, "Read at") || strings.HasPrefix(t, "Previous write at") || strings.HasPrefix(t, "Previous read at") ||
				strings.HasPrefix(t, "Atomic write at") || strings.HasPrefix(t, "Previous atomic") || strings.HasPrefix(t, "Atomic read at") {
				inAccess, got = true, false
				continue
			}
			if strings.HasPrefix(t, "Goroutine ") {
				inAccess = false
			}
			if inAccess && !got && strings.HasPrefix(t, "github.com/usnistgov/dastard") && i+1 < len(lines) && !strings.Contains(lines[i+1], "zz_verif_") {
				name := t
				if j := strings.LastIndex(name, "("); j > 0 {
					name = name[:j]
				}
				if j := strings.LastIndex(name, "/"); j >= 0 {
					name = name[j+1:]
				}
				frames = append(frames, name)
				got = true
			}
			if inAccess && t == "" {
				if !got {
					frames = append(frames, "harness")
				}
				inAccess = false
			}
		}
		for len(frames) < 2 {
			frames = append(frames, "harness")
		}
		frames = frames[:2]
		sort.Strings(frames)
		if frames[0] == "harness" && frames[1] == "harness" {
			continue // both accesses in harness code only
		}
		sig := "race|" + frames[0] + "~" + frames[1]
		sigs = append(sigs, sig)
		if first == "" {
			first = "WARNING: DATA RACE" + blk
		}
	}
	return
}

func c17Run(c c17Case) (v vVerdict) {
	before := c17LogSize()
	vMonQuiet = true
	defer func() { vMonQuiet = false }()
	var inner vVerdict
	switch c.Kind {
	case "lifecycle":
		if c.C10 == nil {
			return v
		}
		inner = c10Run(*c.C10)
	case "requests":
		if c.C11 == nil {
			return v
		}
		inner = c11Run(*c.C11)
	case "lancero":
		if c.C04 == nil {
			return v
		}
		inner = c04Run(*c.C04)
	case "updater":
		if c.C16 == nil {
			return v
		}
		inner = c16Run(*c.C16)
	case "disk":
		// the writer threads: asynchronous writer over a gated disk, and the real LJH/OFF writers over a stalled FIFO
		if c.C07A != nil {
			inner = c07ARun(*c.C07A)
		} else if c.C07B != nil {
			inner = c07BRun(*c.C07B)
		} else {
			return v
		}
	default:
		return v
	}
	if c17LogPath() == "" {
		return vVerdict{Inconclusive: "race log not configured (binary not built with -race?)"}
	}
	if b, err := os.ReadFile(c17LogPath()); err == nil && int64(len(b)) > before {
		sigs, first := c17Signatures(string(b[before:]))
		if len(sigs) > 0 {
			sort.Strings(sigs)
			return vVerdict{Fail: true, Sig: sigs[0], Msg: fmt.Sprintf("%d data race report(s) during this workload: %v\n%s", len(sigs), sigs, vTrim(first, 3500))}
		}
	}
	if inner.Fail && strings.HasPrefix(inner.Sig, "panic") {
		return inner
	}
	v.NonTrivial = inner.NonTrivial
	v.Classes = append(inner.Classes, "kind-"+c.Kind)
	if inner.Fail {
		v.Classes = append(v.Classes, "workload-oracle-failed-ignored")
	}
	return v
}

func c17Gen(t *rapid.T) c17Case {
	switch rapid.IntRange(0, 10).Draw(t, "kind") {
	case 10:
		if rapid.Bool().Draw(t, "diskA") {
			c := c07AGen(t)
			return c17Case{Kind: "disk", C07A: &c}
		}
		c := c07BGen(t)
		return c17Case{Kind: "disk", C07B: &c}
	case 0, 1, 2, 3:
		c := c10Gen(t)
		if c.Source == "abaco" || c.Source == "udp" || c.Source == "udp2" {
			c.Dwell = 130 // several 50 ms read ticks per run: reader, block assembly and core loop all overlap
		} else if rapid.Bool().Draw(t, "dwell") {
			c.Dwell = 15
		}
		return c17Case{Kind: "lifecycle", C10: &c}
	case 4, 5, 6:
		if rapid.IntRange(0, 5).Draw(t, "longwrite") == 0 {
			// a run that writes files for more than a second: the once-a-second NUMBERWRITTEN / trigger-rate messages are
			// published while blocks keep coming
			c := c10Case{Source: rapid.SampledFrom([]string{"triangle", "scripted", "simpulse"}).Draw(t, "lwsource"), Nchan: rapid.IntRange(1, 4).Draw(t, "lwnchan"),
				Ops: []c10Op{{Op: "start"}, {Op: "wstart", N: rapid.IntRange(0, 1).Draw(t, "lwtypes")}, {Op: "waitlong", N: rapid.IntRange(1050, 1400).Draw(t, "lwms")},
					{Op: "request"}, {Op: "wait", N: 5}, {Op: "stop", K: 1, Stagger: []int{0}}}}
			return c17Case{Kind: "lifecycle", C10: &c}
		}
		c := c11Gen(t)
		// a status request right after a projector change (the RPC layer keeps the channels with projectors in its status)
		var steps []c11Step
		for _, st := range c.Steps {
			steps = append(steps, st)
			if st.Op == "proj" && rapid.Bool().Draw(t, "sendallafterproj") {
				steps = append(steps, c11Step{Op: "sendall"})
			}
			if st.Op == "start" && (c.Source == "triangle" || c.Source == "simpulse") && rapid.Bool().Draw(t, "cfgrunning") {
				// a client re-sends the source's configuration while it runs (refused)
				steps = append(steps, c11Step{Op: "wait", N: 3}, c11Step{Op: "cfgrunning", N: rapid.IntRange(0, 7).Draw(t, "cfgn")})
			}
			if st.Op == "wc" && rapid.Bool().Draw(t, "labelnowait") {
				// (skipped by the runner unless the source runs and is writing)
				steps = append(steps, c11Step{Op: "labelnowait", Text: "state"})
			}
		}
		c.Steps = steps
		return c17Case{Kind: "requests", C11: &c}
	case 7, 8:
		c := c04Gen(t)
		if c.Gap != nil && len(c.Mix) == 0 && rapid.Bool().Draw(t, "lag") {
			c.LagMs = rapid.SampledFrom([]int{60, 120, 260}).Draw(t, "lagms") // block assembly behind the reader when the data drop comes
		}
		return c17Case{Kind: "lancero", C04: &c}
	default:
		c := c16Gen(t)
		c.Persist = false
		return c17Case{Kind: "updater", C16: &c}
	}
}

func TestVerif_C17(t *testing.T) { vCheck(t, "C17", c17Gen, c17Run) }
