//go:build verif

package dastard

// Independent decoders for the three output file formats, written from doc/LJH.md (LJH 2.2), from the
// LJH3 layout (JSON value, newline, records) and from the OFF 0.3.0 layout (JSON header, newline,
// projectors, basis, fixed-size records).  Used by C05, C06, C07, C19.

import (
	"bytes"
	"encoding/binary"
	"encoding/json"
	"fmt"
	"math"
	"strconv"
	"strings"
)

// ---------- LJH 2.2 ----------

type vLJHRecord struct {
	Subframe int64
	TimeUs   int64
	Samples  []uint16
}

type vLJHFile struct {
	Header    map[string]string
	HeaderLen int
	Records   []vLJHRecord
}

// vDecodeLJH22 parses a complete LJH 2.2 file image.
func vDecodeLJH22(b []byte) (*vLJHFile, error) {
	const first = "#LJH Memorial File Format"
	if !bytes.HasPrefix(b, []byte(first)) {
		return nil, fmt.Errorf("does not begin with %q", first)
	}
	end := bytes.Index(b, []byte("#End of Header"))
	if end < 0 {
		return nil, fmt.Errorf("no '#End of Header' line")
	}
	pos := end + len("#End of Header")
	// the doc: LF, CR or CRLF
	if pos < len(b) && b[pos] == '\r' {
		pos++
	}
	if pos < len(b) && b[pos] == '\n' {
		pos++
	}
	f := &vLJHFile{Header: map[string]string{}, HeaderLen: pos}
	for _, line := range strings.Split(string(b[:end]), "\n") {
		line = strings.TrimRight(line, "\r")
		if strings.HasPrefix(line, "#") {
			continue
		}
		if i := strings.Index(line, ": "); i >= 0 {
			f.Header[line[:i]] = line[i+2:]
		} else if strings.HasSuffix(line, ":") {
			f.Header[strings.TrimSuffix(line, ":")] = ""
		}
	}
	ns, ok := f.Header["Total Samples"]
	if !ok {
		return nil, fmt.Errorf("header lacks 'Total Samples'")
	}
	n, err := strconv.Atoi(ns)
	if err != nil || n < 0 {
		return nil, fmt.Errorf("bad 'Total Samples: %s'", ns)
	}
	recLen := 16 + 2*n // the documented word size is 2 bytes
	body := b[pos:]
	if len(body)%recLen != 0 {
		return f, fmt.Errorf("body of %d bytes is not a whole number of %d-byte records (partial record)", len(body), recLen)
	}
	for off := 0; off < len(body); off += recLen {
		r := vLJHRecord{Subframe: int64(binary.LittleEndian.Uint64(body[off:])), TimeUs: int64(binary.LittleEndian.Uint64(body[off+8:]))}
		r.Samples = make([]uint16, n)
		for i := range r.Samples {
			r.Samples[i] = binary.LittleEndian.Uint16(body[off+16+2*i:])
		}
		f.Records = append(f.Records, r)
	}
	return f, nil
}

func (f *vLJHFile) intField(key string) (int, error) {
	s, ok := f.Header[key]
	if !ok {
		return 0, fmt.Errorf("header lacks %q", key)
	}
	v, err := strconv.Atoi(strings.TrimSpace(s))
	if err != nil {
		return 0, fmt.Errorf("header %q: %q is not an integer", key, s)
	}
	return v, nil
}

// ---------- LJH3 ----------

type vLJH3Record struct {
	First   int32
	Frame   int64
	TimeUs  int64
	Samples []uint16
}

type vLJH3File struct {
	Header    map[string]any
	HeaderLen int
	Records   []vLJH3Record
}

func vDecodeJSONPrefix(b []byte) (map[string]any, int, error) {
	dec := json.NewDecoder(bytes.NewReader(b))
	dec.UseNumber()
	var h map[string]any
	if err := dec.Decode(&h); err != nil {
		return nil, 0, fmt.Errorf("JSON header: %v", err)
	}
	pos := int(dec.InputOffset())
	if pos >= len(b) || b[pos] != '\n' {
		return nil, 0, fmt.Errorf("JSON header not followed by a newline")
	}
	return h, pos + 1, nil
}

func vDecodeLJH3(b []byte) (*vLJH3File, error) {
	h, pos, err := vDecodeJSONPrefix(b)
	if err != nil {
		return nil, err
	}
	f := &vLJH3File{Header: h, HeaderLen: pos}
	body := b[pos:]
	for off := 0; off < len(body); {
		if len(body)-off < 24 {
			return f, fmt.Errorf("%d stray bytes after the last whole record (partial record)", len(body)-off)
		}
		n := int32(binary.LittleEndian.Uint32(body[off:]))
		if n < 0 || off+24+2*int(n) > len(body) {
			return f, fmt.Errorf("record at body offset %d declares %d samples but only %d bytes remain (partial record)", off, n, len(body)-off-24)
		}
		r := vLJH3Record{First: int32(binary.LittleEndian.Uint32(body[off+4:])), Frame: int64(binary.LittleEndian.Uint64(body[off+8:])),
			TimeUs: int64(binary.LittleEndian.Uint64(body[off+16:]))}
		r.Samples = make([]uint16, n)
		for i := range r.Samples {
			r.Samples[i] = binary.LittleEndian.Uint16(body[off+24+2*i:])
		}
		f.Records = append(f.Records, r)
		off += 24 + 2*int(n)
	}
	return f, nil
}

// ---------- OFF 0.3.0 ----------

type vOFFRecord struct {
	NSamp, NPre      int32
	Frame, TimeNs    int64
	Mean, Delta, Std uint32 // float32 bit patterns
	Coefs            []uint32
}

type vOFFFile struct {
	Header     map[string]any
	HeaderLen  int // JSON + newline + matrices
	Projectors []float64
	Basis      []float64
	NBases     int
	Records    []vOFFRecord
}

func vJSONInt(m map[string]any, path ...string) (int, error) {
	var cur any = m
	for _, p := range path {
		mm, ok := cur.(map[string]any)
		if !ok {
			return 0, fmt.Errorf("header path %v: not an object", path)
		}
		cur, ok = mm[p]
		if !ok {
			return 0, fmt.Errorf("header lacks %v", path)
		}
	}
	n, ok := cur.(json.Number)
	if !ok {
		return 0, fmt.Errorf("header %v is not a number", path)
	}
	i, err := n.Int64()
	return int(i), err
}

func vJSONString(m map[string]any, path ...string) (string, error) {
	var cur any = m
	for _, p := range path {
		mm, ok := cur.(map[string]any)
		if !ok {
			return "", fmt.Errorf("header path %v: not an object", path)
		}
		cur, ok = mm[p]
		if !ok {
			return "", fmt.Errorf("header lacks %v", path)
		}
	}
	s, ok := cur.(string)
	if !ok {
		return "", fmt.Errorf("header %v is not a string", path)
	}
	return s, nil
}

func vJSONFloat(m map[string]any, path ...string) (float64, error) {
	var cur any = m
	for _, p := range path {
		mm, ok := cur.(map[string]any)
		if !ok {
			return 0, fmt.Errorf("header path %v: not an object", path)
		}
		cur, ok = mm[p]
		if !ok {
			return 0, fmt.Errorf("header lacks %v", path)
		}
	}
	n, ok := cur.(json.Number)
	if !ok {
		return 0, fmt.Errorf("header %v is not a number", path)
	}
	return n.Float64()
}

func vDecodeOFF(b []byte) (*vOFFFile, error) {
	h, pos, err := vDecodeJSONPrefix(b)
	if err != nil {
		return nil, err
	}
	f := &vOFFFile{Header: h}
	nb, err := vJSONInt(h, "NumberOfBases")
	if err != nil {
		return nil, err
	}
	pr, err1 := vJSONInt(h, "ModelInfo", "Projectors", "Rows")
	pc, err2 := vJSONInt(h, "ModelInfo", "Projectors", "Cols")
	br, err3 := vJSONInt(h, "ModelInfo", "Basis", "Rows")
	bc, err4 := vJSONInt(h, "ModelInfo", "Basis", "Cols")
	for _, e := range []error{err1, err2, err3, err4} {
		if e != nil {
			return nil, e
		}
	}
	f.NBases = nb
	need := 8 * (pr*pc + br*bc)
	if pr < 0 || pc < 0 || br < 0 || bc < 0 || pos+need > len(b) {
		return nil, fmt.Errorf("file too short for the %dx%d projectors and %dx%d basis declared in the header", pr, pc, br, bc)
	}
	rd := func(n int) []float64 {
		out := make([]float64, n)
		for i := range out {
			out[i] = math.Float64frombits(binary.LittleEndian.Uint64(b[pos:]))
			pos += 8
		}
		return out
	}
	f.Projectors = rd(pr * pc)
	f.Basis = rd(br * bc)
	f.HeaderLen = pos
	recLen := 36 + 4*nb
	body := b[pos:]
	if nb < 0 || len(body)%recLen != 0 {
		return f, fmt.Errorf("body of %d bytes is not a whole number of %d-byte records (partial record)", len(body), recLen)
	}
	le := binary.LittleEndian
	for off := 0; off < len(body); off += recLen {
		r := vOFFRecord{NSamp: int32(le.Uint32(body[off:])), NPre: int32(le.Uint32(body[off+4:])), Frame: int64(le.Uint64(body[off+8:])),
			TimeNs: int64(le.Uint64(body[off+16:])), Mean: le.Uint32(body[off+24:]), Delta: le.Uint32(body[off+28:]), Std: le.Uint32(body[off+32:])}
		for k := 0; k < nb; k++ {
			r.Coefs = append(r.Coefs, le.Uint32(body[off+36+4*k:]))
		}
		f.Records = append(f.Records, r)
	}
	return f, nil
}

func vF32BitsEqual(got uint32, want float32) bool {
	if want != want {
		g := math.Float32frombits(got)
		return g != g
	}
	return got == math.Float32bits(want)
}
