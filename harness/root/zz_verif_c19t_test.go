//go:build verif

package dastard

// C19 (third harness): the simulated sources behind the real SourceControl. A history of Configure requests - accepted ones and
// ones that are refused (too slow a buffer, too few channels, Min > Max) - is followed by Start; whatever configuration the
// accepted Start runs with, its identity tables must describe exactly the channels that run: as many names, numbers and
// row/column codes as channels, distinct names and numbers, codes that decode to a geometry holding every channel, groups
// covering the numbers. A WriteControl START / STOP follows (it takes its geometry from those tables).

import (
	"fmt"
	"os"
	"path/filepath"
	"testing"
	"time"

	"github.com/spf13/viper"
	"pgregory.net/rapid"
)

type c19tCfg struct {
	Nchan int     `json:"nchan"`
	Rate  float64 `json:"rate"`
	Span  int     `json:"span"` // Triangle: Max-Min; SimPulse: Nsamp
}

type c19tCase struct {
	Sim  bool      `json:"simpulse,omitempty"`
	Cfgs []c19tCfg `json:"configs"`
}

func c19tGen(t *rapid.T) c19tCase {
	c := c19tCase{Sim: rapid.Bool().Draw(t, "sim")}
	n := rapid.IntRange(1, 4).Draw(t, "ncfg")
	for i := 0; i < n; i++ {
		c.Cfgs = append(c.Cfgs, c19tCfg{Nchan: rapid.SampledFrom([]int{1, 2, 3, 4, 6, 8, 0}).Draw(t, "nchan"),
			Rate: rapid.SampledFrom([]float64{1000, 10000, 100000, 200}).Draw(t, "rate"),
			Span: rapid.SampledFrom([]int{50, 100, 1000, 10000, 40000}).Draw(t, "span")})
	}
	return c
}

var c19tCounter int

func c19tRun(c c19tCase) (v vVerdict) {
	if len(c.Cfgs) == 0 || len(c.Cfgs) > 8 {
		return v
	}
	c19tCounter++
	work := os.Getenv("VERIF_WORK")
	if work == "" {
		work = os.TempDir()
	}
	root := filepath.Join(work, fmt.Sprintf("c19t_%d_%d", os.Getpid(), c19tCounter))
	os.RemoveAll(root)
	os.MkdirAll(filepath.Join(root, ".dastard"), 0o755)
	defer os.RemoveAll(root)
	oldHome := os.Getenv("HOME")
	os.Setenv("HOME", root)
	defer os.Setenv("HOME", oldHome)
	vDrainRecords()
	viper.Reset()
	sc := NewSourceControl()
	sc.clientUpdates = clientMessageChan
	ms := newMapServer()
	ms.clientUpdates = clientMessageChan
	sc.mapServer = ms
	sc.status.Npresamp, sc.status.Nsamples = 8, 32
	sc.ActiveSource = sc.triangle
	hbStop := make(chan struct{})
	go func() {
		for {
			select {
			case <-sc.heartbeats:
			case <-hbStop:
				return
			}
		}
	}()
	defer close(hbStop)
	accepted, refused := 0, 0
	for _, k := range c.Cfgs {
		if k.Nchan < 0 || k.Nchan > 64 || k.Rate <= 0 || k.Span < 1 || k.Span > 100000 {
			return v
		}
		var ok bool
		var err error
		if c.Sim {
			err = sc.ConfigureSimPulseSource(&SimPulseSourceConfig{Nchan: k.Nchan, SampleRate: k.Rate, Pedestal: 1000, Amplitudes: []float64{5000}, Nsamp: k.Span}, &ok)
		} else {
			err = sc.ConfigureTriangleSource(&TriangleSourceConfig{Nchan: k.Nchan, SampleRate: k.Rate, Min: 100, Max: RawType(100 + k.Span%60000)}, &ok)
		}
		if err != nil {
			refused++
		} else {
			accepted++
		}
	}
	if accepted == 0 {
		return v // a source that was never configured successfully: nothing to start
	}
	name := "TRIANGLESOURCE"
	ds := &sc.triangle.AnySource
	if c.Sim {
		name = "SIMPULSESOURCE"
		ds = &sc.simPulses.AnySource
	}
	var ok bool
	if err := sc.Start(&name, &ok); err != nil {
		v.Classes = append(v.Classes, "start-refused")
		return v
	}
	defer func() {
		if sc.isSourceActive {
			var r bool
			d := ""
			sc.Stop(&d, &r)
		}
	}()
	n := ds.nchan
	if len(ds.chanNames) != n || len(ds.chanNumbers) != n || len(ds.rowColCodes) != n || len(ds.processors) != n {
		return vFailf("tables-differ-in-length", "after %d accepted and %d refused Configure requests the %s runs %d channels with %d names, %d numbers, %d row/column codes, %d processors",
			accepted, refused, name, n, len(ds.chanNames), len(ds.chanNumbers), len(ds.rowColCodes), len(ds.processors))
	}
	names, nums := map[string]bool{}, map[int]bool{}
	for i := 0; i < n; i++ {
		rc := ds.rowColCodes[i]
		if names[ds.chanNames[i]] || nums[ds.chanNumbers[i]] {
			return vFailf("identity-not-distinct", "channel %d of the %s shares its name %q or number %d with another channel", i, name, ds.chanNames[i], ds.chanNumbers[i])
		}
		names[ds.chanNames[i]], nums[ds.chanNumbers[i]] = true, true
		if rc.rows() < 1 || rc.cols() < 1 || rc.row() >= rc.rows() || rc.col() >= rc.cols() || rc.rows()*rc.cols() < n {
			return vFailf("geometry-code", "channel %d of %d of the %s has row/column code (row %d of %d, column %d of %d): that geometry cannot hold the channels that run", i, n, name, rc.row(), rc.rows(), rc.col(), rc.cols())
		}
	}
	covered := 0
	for _, g := range sc.status.ChanGroups {
		covered += g.Nchan
	}
	if covered != n || sc.status.Nchannels != n {
		return vFailf("reported-groups-differ", "the %s runs %d channels, STATUS says %d channels in groups %v", name, n, sc.status.Nchannels, sc.status.ChanGroups)
	}
	// the file headers take their geometry from these tables
	var r bool
	werr := sc.WriteControl(&WriteControlConfig{Request: "START", WriteLJH22: true, Path: filepath.Join(root, "data")}, &r)
	if werr == nil {
		time.Sleep(2 * time.Millisecond)
		sc.WriteControl(&WriteControlConfig{Request: "STOP"}, &r)
	}
	v.NonTrivial = refused > 0
	if refused > 0 {
		v.Classes = append(v.Classes, "refused-configure-before-start")
	}
	return v
}

func TestVerif_C19T(t *testing.T) { vCheck(t, "C19T", c19tGen, c19tRun) }
