//go:build verif

package dastard

// C05 (second harness): the headers as a START request produces them. A real AnySource with generated sample rate,
// geometry, channel identity, sub-frame parameters, decimation and projectors receives WriteControl START; a few
// records are published per channel; after STOP every file is decoded independently and its header is compared with
// the source's true parameters (time base = 1/sample rate, not a rounded period), its body with the records.

import (
	"fmt"
	"math"
	"os"
	"path/filepath"
	"testing"
	"time"

	"github.com/spf13/viper"
	"gonum.org/v1/gonum/mat"
	"pgregory.net/rapid"
)

type c05eCase struct {
	Nchan    int     `json:"nchan"`
	Rate     float64 `json:"sample_rate"`
	Npre     int     `json:"npre"`
	Nsamp    int     `json:"nsamp"`
	SubDiv   int     `json:"subframe_divisions"`
	Rows     int     `json:"rows"`
	Cols     int     `json:"cols"`
	Types    int     `json:"types"` // bit 0 LJH2.2, 1 LJH3, 2 OFF
	Proj     []bool  `json:"projectors"`
	Decimate int     `json:"decimate"` // 0: off, else level
	// DecimateOff: decimation is switched off but a level is still set (left over from an earlier setting): one sample per point
	DecimateOff bool `json:"decimate_off_level_set,omitempty"`
	// OffBeyond: some channels' sub-frame offsets are not below the divisions (cards with unequal row counts give this)
	OffBeyond bool `json:"offset_beyond_divisions,omitempty"`
	NRec     int     `json:"nrec"`
	Seed     int     `json:"seed"`
	// Src: "" a scripted AnySource with generated geometry and identity; "triangle" / "simpulse": the real simulated source,
	// configured and prepared as Start does (its own geometry, names and sub-frame parameters)
	Src string `json:"src,omitempty"`
	// MapPixels: a TES map with so many pixels is loaded (the RPC layer hands it to every START): START either succeeds or is
	// refused with a map error - it must not end the server
	MapPixels int `json:"map_pixels,omitempty"`
}

func c05eGen(t *rapid.T) c05eCase {
	c := c05eCase{Nchan: rapid.IntRange(1, 4).Draw(t, "nchan"),
		Rate: rapid.SampledFrom([]float64{1e6, 62500, 244140.625, 30000, 70000, 90000, 110000, 300000, 1e6 / 3, 12345.678, 123456.789, 125e6 / 64 / 33}).Draw(t, "rate"),
		Nsamp:    rapid.SampledFrom([]int{8, 20, 64}).Draw(t, "nsamp"),
		SubDiv:   rapid.SampledFrom([]int{1, 4, 64}).Draw(t, "subdiv"),
		Types:    rapid.IntRange(1, 7).Draw(t, "types"),
		Decimate: rapid.SampledFrom([]int{0, 0, 2, 5}).Draw(t, "decimate"),
		NRec:     rapid.IntRange(1, 4).Draw(t, "nrec"),
		Seed:     rapid.IntRange(0, 1<<20).Draw(t, "seed")}
	c.Npre = rapid.IntRange(3, c.Nsamp-2).Draw(t, "npre")
	c.Rows = rapid.IntRange(1, 5).Draw(t, "rows")
	c.Cols = (c.Nchan + c.Rows - 1) / c.Rows
	for i := 0; i < c.Nchan; i++ {
		c.Proj = append(c.Proj, rapid.Bool().Draw(t, "proj"))
	}
	c.DecimateOff = c.Decimate > 0 && rapid.IntRange(0, 2).Draw(t, "decoff") == 0
	c.OffBeyond = rapid.IntRange(0, 3).Draw(t, "offbeyond") == 0
	c.Src = rapid.SampledFrom([]string{"", "", "triangle", "simpulse", "lancero", "roach", "abaco"}).Draw(t, "src")
	if rapid.IntRange(0, 3).Draw(t, "map") == 0 {
		c.MapPixels = rapid.SampledFrom([]int{1, c.Nchan, c.Nchan, c.Nchan + 1, 2 * c.Nchan}).Draw(t, "mappixels")
	}
	if c.Src != "" {
		c.Decimate = 0
	}
	return c
}

var c05eCounter int

// subOff is the sub-frame offset the scripted source gives channel i.
func (c c05eCase) subOff(i int) int {
	off := (i * 5) % c.SubDiv
	if c.OffBeyond && i%2 == 1 {
		off += c.SubDiv * (1 + i%3)
	}
	return off
}

func c05eRun(c c05eCase) (v vVerdict) {
	if c.Nchan < 1 || c.Nchan > 8 || (len(c.Proj) != c.Nchan && c.Src != "lancero") || c.Npre < 3 || c.Nsamp < c.Npre+1 || c.Nsamp > 200 || c.Rate <= 0 || c.SubDiv < 1 ||
		c.Rows < 1 || c.Cols < 1 || c.Rows*c.Cols < c.Nchan || c.Types&7 == 0 || c.NRec < 1 || c.Decimate < 0 {
		return v
	}
	c05eCounter++
	work := os.Getenv("VERIF_WORK")
	if work == "" {
		work = os.TempDir()
	}
	root := filepath.Join(work, fmt.Sprintf("c05e_%d_%d", os.Getpid(), c05eCounter))
	os.RemoveAll(root)
	os.MkdirAll(root, 0o755)
	defer os.RemoveAll(root)

	vDrainRecords()
	var ds *AnySource
	lanceroRows := 0
	switch c.Src {
	case "triangle":
		ts := NewTriangleSource()
		if err := ts.Configure(&TriangleSourceConfig{Nchan: c.Nchan, SampleRate: c.Rate, Min: 100, Max: 200}); err != nil {
			return vFailf("prepare", "TriangleSource.Configure: %v", err)
		}
		if err := ts.Sample(); err != nil {
			return vFailf("prepare", "%v", err)
		}
		if err := ts.PrepareChannels(); err != nil {
			return vFailf("prepare", "%v", err)
		}
		ds = &ts.AnySource
	case "simpulse":
		sp := NewSimPulseSource()
		if err := sp.Configure(&SimPulseSourceConfig{Nchan: c.Nchan, SampleRate: c.Rate, Pedestal: 1000, Amplitudes: []float64{3000}, Nsamp: 150}); err != nil {
			return vFailf("prepare", "SimPulseSource.Configure: %v", err)
		}
		if err := sp.Sample(); err != nil {
			return vFailf("prepare", "%v", err)
		}
		if err := sp.PrepareChannels(); err != nil {
			return vFailf("prepare", "%v", err)
		}
		ds = &sp.AnySource
	case "roach":
		// a ROACH source after its sampling step (one device with Nchan channels)
		rs, err := NewRoachSource()
		if err != nil {
			return vFailf("prepare", "%v", err)
		}
		rs.nchan = c.Nchan
		rs.sampleRate = c.Rate
		rs.samplePeriod = time.Duration(math.Round(1e9 / c.Rate))
		if err := rs.PrepareChannels(); err != nil {
			return vFailf("prepare", "%v", err)
		}
		ds = &rs.AnySource
	case "abaco":
		// an Abaco source after its sampling step (one channel group)
		as, err := NewAbacoSource()
		if err != nil {
			return vFailf("prepare", "%v", err)
		}
		gi := GroupIndex{Firstchan: c.Seed % 3, Nchan: c.Nchan}
		as.nchan = c.Nchan
		as.groups = map[GroupIndex]*AbacoGroup{gi: NewAbacoGroup(gi, AbacoUnwrapOptions{})}
		as.groupKeysSorted = []GroupIndex{gi}
		as.sampleRate = c.Rate
		as.samplePeriod = time.Duration(math.Round(1e9 / c.Rate))
		if err := as.PrepareChannels(); err != nil {
			return vFailf("prepare", "%v", err)
		}
		ds = &as.AnySource
	case "lancero":
		// one in-memory card of 1-2 columns; Nchan streams = 2 x cols x rows (error and feedback of every column and row)
		cols := 1 + c.Seed%2
		rows := c.Nchan/(2*cols) + 2
		ls, err := NewLanceroSource()
		if err != nil {
			return vFailf("prepare", "%v", err)
		}
		cg := filepath.Join(root, "cringeGlobals.json")
		os.WriteFile(cg, []byte(fmt.Sprintf(`{"SETT":1,"seqln":%d,"lsync":20000,"testpattern":0,"propagationdelay":0,"NSAMP":4,"carddelay":0,"XPT":0}`, rows)), 0o644)
		oldPath := cringeGlobalsPath
		cringeGlobalsPath = cg
		defer func() { cringeGlobalsPath = oldPath }()
		card := &vLiveCard{cols: cols, rows: rows, period: time.Duration(20000 * rows * 8), t0: vPipeT0}
		ls.devices = map[int]*LanceroDevice{0: {devnum: 0, card: card}}
		ls.ncards = 1
		if err := ls.Configure(&LanceroSourceConfig{FiberMask: 0xffff, ActiveCards: []int{0}, CardDelay: []int{1}, FirstRow: 1}); err != nil {
			return vFailf("prepare", "LanceroSource.Configure: %v", err)
		}
		if err := ls.Sample(); err != nil {
			return vFailf("prepare", "LanceroSource.Sample: %v", err)
		}
		if err := ls.PrepareChannels(); err != nil {
			return vFailf("prepare", "%v", err)
		}
		ds = &ls.AnySource
		c.Nchan = ds.nchan
		c.Rate = ds.sampleRate
		c.Proj = make([]bool, c.Nchan)
		for i := range c.Proj {
			c.Proj[i] = i%2 == 1 && (c.Seed>>uint(i%8))&1 == 1 // projectors on some feedback channels
		}
		lanceroRows = rows
	default:
		holder := newScripted(c.Nchan, time.Millisecond, 48)
		ds = &holder.AnySource
		ds.name = "verifE"
		ds.sampleRate = c.Rate
		ds.samplePeriod = time.Duration(math.Round(1e9 / c.Rate)) // as the real sources keep it: whole nanoseconds
		ds.subframeDivisions = c.SubDiv
		if err := ds.PrepareChannels(); err != nil {
			return vFailf("prepare", "%v", err)
		}
		ds.rowColCodes = make([]RowColCode, c.Nchan)
		for i := 0; i < c.Nchan; i++ {
			ds.rowColCodes[i] = rcCode(i%c.Rows, i/c.Rows, c.Rows, c.Cols)
			ds.chanNumbers[i] = 10 + 3*i
			ds.chanNames[i] = fmt.Sprintf("ch%d", 10+3*i)
			ds.subframeOffsets[i] = c.subOff(i)
		}
	}
	viper.Reset()
	if err := ds.PrepareRun(c.Npre, c.Nsamp); err != nil {
		return vFailf("prepare", "%v", err)
	}
	defer func() {
		ds.numberWrittenTicker.Stop()
		ds.writingState.externalTriggerTicker.Stop()
		ds.writingState.dataDropTicker.Stop()
	}()
	if c.Src != "" {
		// doc/LJH.md: the sub-frame counter runs at "subframe divisions" counts per frame - the number of rows for TDM, "some
		// arbitrary multiplier like 64" for the other sources - and a record's count is frame*divisions + the channel's offset
		if ds.subframeDivisions < 1 {
			return vFailf("subframe-divisions", "the %s source runs with %d sub-frame divisions per frame: every LJH 2.2 record would carry sub-frame count 0 and lose its frame number", c.Src, ds.subframeDivisions)
		}
		for i, off := range ds.subframeOffsets {
			if off < 0 || off >= ds.subframeDivisions {
				return vFailf("subframe-divisions", "channel %d of the %s source has sub-frame offset %d with %d divisions per frame", i, c.Src, off, ds.subframeDivisions)
			}
		}
	}
	projFlat := make([]float64, 2*c.Nsamp)
	basisFlat := make([]float64, 2*c.Nsamp)
	anyProj := false
	for ch, dsp := range ds.processors {
		if c.Decimate > 0 {
			dsp.Decimate, dsp.DecimateLevel = !c.DecimateOff, c.Decimate
		}
		if c.Proj[ch] {
			P := mat.NewDense(2, c.Nsamp, nil)
			B := mat.NewDense(c.Nsamp, 2, nil)
			for i := 0; i < c.Nsamp; i++ {
				P.Set(0, i, 1.0/float64(c.Nsamp))
				P.Set(1, i, float64(i%3)-1)
				B.Set(i, 0, 1)
				B.Set(i, 1, float64(i%2))
			}
			for r := 0; r < 2; r++ {
				for i := 0; i < c.Nsamp; i++ {
					projFlat[r*c.Nsamp+i] = P.At(r, i)
				}
			}
			for i := 0; i < c.Nsamp; i++ {
				for r := 0; r < 2; r++ {
					basisFlat[i*2+r] = B.At(i, r)
				}
			}
			if err := ds.ConfigureProjectorsBases(ch, P, B, "verif model E"); err != nil {
				return vFailf("prepare", "projectors: %v", err)
			}
			anyProj = true
		}
	}
	cfg := &WriteControlConfig{Request: "START", WriteLJH22: c.Types&1 != 0, WriteLJH3: c.Types&2 != 0, WriteOFF: c.Types&4 != 0, Path: root}
	if c.MapPixels > 0 && c.MapPixels <= 1000 {
		m := &Map{Spacing: 250, Filename: "verif.map"}
		for k := 0; k < c.MapPixels; k++ {
			m.Pixels = append(m.Pixels, Pixel{X: 10 * k, Y: 20 * k, Name: fmt.Sprintf("pix%d", k+1)})
		}
		cfg.MapInternalOnly = m
	}
	if err := ds.WriteControl(cfg); err != nil {
		if cfg.WriteOFF && !anyProj {
			return v // OFF files need projectors: refused by design
		}
		if _, isMapErr := err.(mapError); isMapErr && cfg.MapInternalOnly != nil {
			v.Classes = append(v.Classes, "start-refused-for-the-map")
			return v // the map does not fit the source's channels: refused cleanly
		}
		return vFailf("start-rejected", "WriteControl START (types %d) on a %d-channel source: %v", c.Types, c.Nchan, err)
	}
	pattern := ds.ComputeWritingState().FilenamePattern
	want := make([][]c05Rec, c.Nchan)
	for ch, dsp := range ds.processors {
		var recs []*DataRecord
		for k := 0; k < c.NRec; k++ {
			r := c05Rec{N: c.Nsamp, Pre: c.Npre, Seed: c.Seed + 31*ch + k, Frame: int64(1000*k + 17*ch + 5), TimeNs: 1700000000000000000 + int64(k)*1234567 + int64(ch),
				Mean: float64(100 + k), Delta: 0.5 * float64(ch), Std: 1.25, Coefs: []float64{float64(k) + 0.5, -2}}
			want[ch] = append(want[ch], r)
			recs = append(recs, r.record(ch))
		}
		if err := dsp.DataPublisher.PublishData(recs); err != nil {
			return vFailf("publish-error", "channel %d: PublishData: %v", ch, err)
		}
	}
	if err := ds.WriteControl(&WriteControlConfig{Request: "STOP"}); err != nil {
		return vFailf("stop-rejected", "WriteControl STOP: %v", err)
	}
	fps := 1
	if c.Decimate > 0 && !c.DecimateOff {
		fps = c.Decimate
	}
	for ch := 0; ch < c.Nchan; ch++ {
		p := c05Params{ChanIndex: ch, ChanNumber: 10 + 3*ch, ChanName: fmt.Sprintf("ch%d", 10+3*ch), Source: "verifE", Npre: c.Npre, Nsamp: c.Nsamp, FPS: fps,
			Timebase: 1.0 / c.Rate, OffsetNs: DastardStartTime.UnixNano(), Rows: c.Rows, Cols: c.Cols, Chans: c.Nchan, SubDiv: c.SubDiv,
			Row: ch % c.Rows, Col: ch / c.Rows, SubOff: c.subOff(ch), NBases: 2, Proj: projFlat, Basis: basisFlat, Description: "verif model E"}
		if c.Src != "" { // identity and geometry as the source announces them (C19 judges those tables); time base, lengths, records as generated
			rc := ds.rowColCodes[ch]
			p.ChanNumber, p.ChanName, p.Source = ds.chanNumbers[ch], ds.chanNames[ch], ds.name
			p.Rows, p.Cols, p.Row, p.Col = rc.rows(), rc.cols(), rc.row(), rc.col()
			p.SubDiv, p.SubOff = ds.subframeDivisions, ds.subframeOffsets[ch]
			if lanceroRows > 0 {
				// doc/LJH.md: for Lancero sources the sub-frame divisions are the number of rows and a channel's sub-frame
				// offset is its row number (error and feedback of a row are read at the same row time)
				p.SubDiv, p.SubOff = lanceroRows, rc.row()
			}
		}
		if cfg.MapInternalOnly != nil { // the pixel of a channel is looked up by its channel number (counting from 1)
			px := cfg.MapInternalOnly.Pixels[ds.chanNumbers[ch]-1]
			p.PixX, p.PixY, p.PixName = px.X, px.Y, px.Name
		}
		name := ds.processors[ch].Name
		type fc struct {
			on  bool
			ext string
			f   func([]byte) string
		}
		for _, x := range []fc{
			{c.Types&1 != 0, "ljh", func(b []byte) string { return c05CheckLJH22(b, p, want[ch]) }},
			{c.Types&2 != 0, "ljh3", func(b []byte) string { return c05CheckLJH3(b, p, want[ch], p.Row, p.Col) }},
			{c.Types&4 != 0 && c.Proj[ch], "off", func(b []byte) string { return c05CheckOFF(b, p, want[ch]) }},
		} {
			if !x.on {
				continue
			}
			fn := fmt.Sprintf(pattern, name, x.ext)
			b, err := os.ReadFile(fn)
			if err != nil {
				return vFailf("file-missing", "channel %d: %v", ch, err)
			}
			if msg := x.f(b); msg != "" {
				return vFailf("start-header-or-body", "channel %d (sample rate %v Hz, %d x %d, decimation %d) file .%s: %s", ch, c.Rate, c.Rows, c.Cols, c.Decimate, x.ext, msg)
			}
		}
	}
	odd := math.Abs(1e9/c.Rate-math.Round(1e9/c.Rate)) > 1e-6
	v.NonTrivial = odd && c.Nchan >= 2
	if odd {
		v.Classes = append(v.Classes, "period-not-whole-ns")
	}
	if c.Decimate > 0 {
		v.Classes = append(v.Classes, "decimated")
	}
	if c.Types&4 != 0 && anyProj {
		v.Classes = append(v.Classes, "off")
	}
	if c.Src != "" {
		v.Classes = append(v.Classes, "real-"+c.Src+"-source")
	}
	return v
}

func TestVerif_C05E(t *testing.T) { vCheck(t, "C05E", c05eGen, c05eRun) }
