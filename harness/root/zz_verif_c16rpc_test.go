//go:build verif

package dastard

// C16 (third harness): the real senders. A SourceControl (the RPC layer) is driven through a generated session of
// source configurations, starts (also ones that fail part-way), stops, record-length and trigger requests while the real
// RunClientUpdater publishes and saves. What a subscriber received last for every persistent topic must be what the
// configuration file holds after the updater's own save.

import (
	"encoding/json"
	"fmt"
	"net"
	"os"
	"path/filepath"
	"strconv"
	"strings"
	"testing"
	"time"

	"github.com/pebbe/zmq4"
	"github.com/spf13/viper"
	"pgregory.net/rapid"
)

type c16rStep struct {
	Kind string `json:"kind"` // cfgtri cfgsim start stop lengths trig
	Name string `json:"name,omitempty"`
	N    int    `json:"n,omitempty"`
	M    int    `json:"m,omitempty"`
}

type c16rCase struct {
	Steps []c16rStep `json:"steps"`
}

func c16rGen(t *rapid.T) c16rCase {
	var c c16rCase
	if rapid.IntRange(0, 2).Draw(t, "prologue") != 0 { // a typical session begins with a working source
		c.Steps = append(c.Steps, c16rStep{Kind: "cfgtri", N: rapid.IntRange(1, 6).Draw(t, "nchan0"), M: 1}, c16rStep{Kind: "start", Name: "TRIANGLESOURCE"})
	}
	n := rapid.IntRange(3, 10).Draw(t, "nsteps")
	for i := 0; i < n; i++ {
		switch k := rapid.IntRange(0, 12).Draw(t, "kind"); {
		case k == 12:
			c.Steps = append(c.Steps, c16rStep{Kind: "sendallbusy", N: rapid.IntRange(0, 3).Draw(t, "floodms")})
		case k < 2:
			c.Steps = append(c.Steps, c16rStep{Kind: "cfgtri", N: rapid.IntRange(1, 6).Draw(t, "nchan"), M: rapid.IntRange(0, 3).Draw(t, "ratek")})
		case k < 4:
			c.Steps = append(c.Steps, c16rStep{Kind: "cfgsim", N: rapid.IntRange(1, 6).Draw(t, "nchan"), M: rapid.IntRange(0, 3).Draw(t, "ratek")})
		case k < 7:
			c.Steps = append(c.Steps, c16rStep{Kind: "start", Name: rapid.SampledFrom([]string{"TRIANGLESOURCE", "SIMPULSESOURCE", "TRIANGLESOURCE", "ABACOSOURCE", "LANCEROSOURCE", "ROACHSOURCE", "NOSUCHSOURCE"}).Draw(t, "name")})
		case k < 9:
			c.Steps = append(c.Steps, c16rStep{Kind: "stop"})
		case k < 10:
			ns := rapid.SampledFrom([]int{20, 64, 100, 333}).Draw(t, "nsamp")
			c.Steps = append(c.Steps, c16rStep{Kind: "lengths", N: ns, M: rapid.IntRange(4, ns-4).Draw(t, "npre")})
		default:
			c.Steps = append(c.Steps, c16rStep{Kind: "trig", N: rapid.IntRange(0, 3).Draw(t, "tchan"), M: rapid.IntRange(0, 5).Draw(t, "tvar")})
		}
	}
	if rapid.IntRange(0, 1).Draw(t, "epilogue") == 0 {
		// the session ends with a start that fails part-way (the source is not configured): nothing is announced after it
		c.Steps = append(c.Steps, c16rStep{Kind: "stop"}, c16rStep{Kind: "start", Name: rapid.SampledFrom([]string{"ABACOSOURCE", "LANCEROSOURCE", "ROACHSOURCE"}).Draw(t, "badname")})
	}
	return c
}

func c16rRun(c c16rCase) (v vVerdict) {
	if len(c.Steps) == 0 || len(c.Steps) > 30 {
		return v
	}
	c16Counter++
	work := os.Getenv("VERIF_WORK")
	if work == "" {
		work = os.TempDir()
	}
	home := filepath.Join(work, fmt.Sprintf("c16rhome_%d_%d", os.Getpid(), c16Counter))
	os.RemoveAll(home)
	defer os.RemoveAll(home)
	oldHome := os.Getenv("HOME")
	os.Setenv("HOME", home) // SourceControl.Start stores the channel groups under $HOME/.dastard
	defer os.Setenv("HOME", oldHome)
	if err := c16SetupViper(home); err != nil {
		return vFailf("harness", "setup: %v", err)
	}
	cfgFile := viper.ConfigFileUsed()
	shard, _ := strconv.Atoi(os.Getenv("VERIF_SHARD"))
	port := 0
	for try := 0; try < 50 && port == 0; try++ {
		cand := 5000 + (shard%64)*100 + (os.Getpid()*7+c16Counter*3+try)%100 // a TCP range of its own: the other C16 harnesses run at the same time
		if l, err := net.Listen("tcp", fmt.Sprintf(":%d", cand)); err == nil {
			l.Close()
			port = cand
		}
	}
	if port == 0 {
		return vVerdict{Inconclusive: "no free port for the status publisher"}
	}
	abort := make(chan struct{})
	finished := make(chan struct{})
	go func() {
		defer close(finished)
		RunClientUpdater(port, abort)
	}()
	stopped := false
	stopUpdater := func() {
		if stopped {
			return
		}
		stopped = true
		close(abort)
		select {
		case <-finished:
		case <-time.After(5 * time.Second):
		}
	}
	defer stopUpdater()
	sub, err := zmq4.NewSocket(zmq4.SUB)
	if err != nil {
		return vVerdict{Inconclusive: "zmq: " + err.Error()}
	}
	defer sub.Close()
	sub.SetLinger(0)
	sub.SetRcvhwm(100000)
	sub.SetSubscribe("")
	if err := sub.Connect(fmt.Sprintf("tcp://127.0.0.1:%d", port)); err != nil {
		return vVerdict{Inconclusive: "zmq connect: " + err.Error()}
	}
	last := map[string]string{} // tag -> JSON text of the last message received
	seen := map[string]int{}    // tag -> messages received
	probeN := 0
	sync := func(patience time.Duration) bool { // everything sent so far has been received
		probeN++
		marker := strconv.Quote(fmt.Sprintf("rprobe-%d-%d", c16Counter, probeN))
		clientMessageChan <- ClientUpdate{"NEWDASTARD", fmt.Sprintf("rprobe-%d-%d", c16Counter, probeN)}
		deadline := time.Now().Add(patience)
		for time.Now().Before(deadline) {
			sub.SetRcvtimeo(100 * time.Millisecond)
			m, err := sub.RecvMessage(0)
			if err != nil || len(m) != 2 {
				continue
			}
			if m[0] == "NEWDASTARD" {
				if m[1] == marker {
					return true
				}
				continue
			}
			last[m[0]] = m[1]
			seen[m[0]]++
		}
		return false
	}
	ok := false
	for try := 0; try < 100 && !ok; try++ {
		ok = sync(150 * time.Millisecond)
	}
	if !ok {
		return vVerdict{Inconclusive: "status subscriber handshake timed out"}
	}

	sc := NewSourceControl()
	sc.clientUpdates = clientMessageChan
	ms := newMapServer()
	ms.clientUpdates = clientMessageChan
	sc.mapServer = ms
	sc.status.Npresamp, sc.status.Nsamples = 8, 32
	sc.ActiveSource = sc.triangle
	hbStop := make(chan struct{})
	go func() {
		for {
			select {
			case <-sc.heartbeats:
			case <-hbStop:
				return
			}
		}
	}()
	defer close(hbStop)
	stopSource := func() {
		if sc.isSourceActive {
			var r bool
			d := ""
			sc.Stop(&d, &r)
		}
	}
	defer stopSource()
	rates := []float64{10000, 40000, 1e5, 12345.5}
	failedStarts, goodStarts := 0, 0
	busySendalls := 0
	for _, st := range c.Steps {
		var r bool
		switch st.Kind {
		case "cfgtri":
			sc.ConfigureTriangleSource(&TriangleSourceConfig{Nchan: st.N, SampleRate: rates[st.M%4], Min: 100, Max: 200 + RawType(st.N)}, &r)
		case "cfgsim":
			sc.ConfigureSimPulseSource(&SimPulseSourceConfig{Nchan: st.N, SampleRate: rates[st.M%4], Pedestal: 1000, Amplitudes: []float64{5000, 100 * float64(st.N)}, Nsamp: 200}, &r)
		case "start":
			name := st.Name
			if err := sc.Start(&name, &r); err != nil {
				failedStarts++
			} else {
				goodStarts++
				time.Sleep(5 * time.Millisecond)
			}
		case "stop":
			stopSource()
		case "sendallbusy":
			// A client asks for all status while the updater has a backlog (here: a flood of stateless messages from another
			// thread keeps its 10-place queue full): every topic published so far must be repeated all the same.
			if !sync(10 * time.Second) {
				return vVerdict{Inconclusive: "lost a marker"}
			}
			before := map[string]int{}
			for tag := range last {
				before[tag] = seen[tag]
			}
			if len(before) == 0 {
				continue
			}
			// (a bounded number of bulky messages: the publisher's own queue towards the subscriber must not overflow,
			// or the messages of interest would be dropped by the transport)
			bulk := strings.Repeat("flood ", 20000)
			floodDone := make(chan struct{})
			go func() {
				defer close(floodDone)
				for k := 0; k < 40+10*(st.N%4); k++ {
					clientMessageChan <- ClientUpdate{"NEWDASTARD", bulk}
				}
			}()
			time.Sleep(time.Duration(100*(1+st.N%3)) * time.Microsecond)
			d := ""
			err := sc.SendAllStatus(&d, &r)
			<-floodDone
			if err != nil {
				return vFailf("sendall-rejected", "SendAllStatus: %v", err)
			}
			if !sync(15 * time.Second) {
				return vVerdict{Inconclusive: "lost the marker after a request for all status"}
			}
			for tag, n := range before {
				if seen[tag] <= n {
					return vFailf("sendall-not-replayed", "a client asked for all status while the updater was busy: the request returned success, but the last %s message was not sent again (%d topics had been published)", tag, len(before))
				}
			}
			busySendalls++
		case "lengths":
			sc.ConfigurePulseLengths(SizeObject{Nsamp: st.N, Npre: st.M}, &r)
		case "trig":
			ts := TriggerState{AutoTrigger: st.M%2 == 0, AutoDelay: time.Duration(1+st.M) * time.Millisecond, LevelTrigger: st.M%3 == 0, LevelLevel: RawType(1000 + st.M)}
			sc.ConfigureTriggers(&FullTriggerState{ChannelIndices: []int{st.N}, TriggerState: ts}, &r)
		}
	}
	stopSource()
	if !sync(10 * time.Second) {
		return vVerdict{Inconclusive: "lost the end-of-session marker"}
	}
	tEnd := time.Now()
	saveable := 0
	for tag := range last {
		if _, nosave := nosaveMessages[strings.ToLower(tag)]; !nosave {
			saveable++
		}
	}
	if saveable == 0 {
		return v
	}
	// the updater saves 2 s after the last change of a saved topic
	saved := false
	deadline := time.Now().Add(9 * time.Second)
	for time.Now().Before(deadline) {
		if fi, err := os.Stat(cfgFile); err == nil && fi.Size() > 0 && time.Since(tEnd) > 2500*time.Millisecond {
			if b, err := os.ReadFile(cfgFile); err == nil && strings.Contains(string(b), "currenttime") {
				saved = true
				break
			}
		}
		time.Sleep(50 * time.Millisecond)
	}
	if !sync(10 * time.Second) { // nothing may have been published meanwhile that the comparison misses
		return vVerdict{Inconclusive: "lost the after-save marker"}
	}
	stopUpdater()
	if !saved {
		// the main C16 harness judges "a save happens"; here a late save only means the comparison cannot be made
		return vVerdict{Inconclusive: fmt.Sprintf("no configuration was saved within 9 s of the end of a session that published %d saveable topics", saveable)}
	}
	time.Sleep(20 * time.Millisecond)
	if err := c16SetupViper(home); err != nil {
		return vFailf("config-unreadable", "next start-up cannot read the saved configuration: %v", err)
	}
	type cmp struct {
		tag, key string
		mk       func() any
	}
	for _, x := range []cmp{
		{"STATUS", "status", func() any { return &ServerStatus{} }},
		{"TRIANGLE", "triangle", func() any { return &TriangleSourceConfig{} }},
		{"SIMPULSE", "simpulse", func() any { return &SimPulseSourceConfig{} }},
		{"TRIGGER", "trigger", func() any { return &[]FullTriggerState{} }},
	} {
		text, pub := last[x.tag]
		if !pub {
			continue
		}
		want := x.mk()
		if err := json.Unmarshal([]byte(text), want); err != nil {
			return vFailf("harness", "cannot decode the %s message %s: %v", x.tag, vTrim(text, 200), err)
		}
		got := x.mk()
		if err := viper.UnmarshalKey(x.key, got); err != nil {
			return vFailf("config-unreadable", "start-up cannot read back %s: %v", x.tag, err)
		}
		if g, w := c16Canon(got), c16Canon(want); g != w {
			return vFailf("saved-differs-from-published", "after a session with %d successful and %d failed starts the configuration file holds %s = %s, the last %s message clients received was %s",
				goodStarts, failedStarts, x.key, vTrim(g, 400), x.tag, vTrim(w, 400))
		}
	}
	v.NonTrivial = goodStarts > 0 && failedStarts > 0
	if failedStarts > 0 {
		v.Classes = append(v.Classes, "failed-start")
	}
	if goodStarts > 0 {
		v.Classes = append(v.Classes, "started")
	}
	if busySendalls > 0 {
		v.Classes = append(v.Classes, "sendall-with-a-backlog")
	}
	return v
}

func TestVerif_C16RPC(t *testing.T) { vCheck(t, "C16RPC", c16rGen, c16rRun) }
