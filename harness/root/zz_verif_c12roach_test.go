//go:build verif

package dastard

// C12 (third harness): the unwrapping as the ROACH data path applies it. A real RoachDevice on a loopback port is sampled
// and then read by its real readPackets loop; the harness sends the data in bursts so that they arrive as several blocks.
// The concatenation of the blocks must equal one unwrapper (public constructor, the device's documented parameters:
// 14 fraction bits, 2 dropped, reset after 20000) run once over each channel's whole sequence: block independence.

import (
	"bytes"
	"encoding/binary"
	"fmt"
	"net"
	"os"
	"strconv"
	"testing"
	"time"

	"pgregory.net/rapid"
)

type c12rCase struct {
	Nchan     int   `json:"nchan"`
	Nsamp     int   `json:"samples_per_packet"`
	Bursts    []int `json:"bursts"` // packets per burst
	Bias      bool  `json:"bias"`
	PulseSign int   `json:"pulsesign"`
	Seed      int   `json:"seed"`
	Kind      int   `json:"kind"`
}

func c12rGen(t *rapid.T) c12rCase {
	c := c12rCase{Nchan: rapid.IntRange(1, 4).Draw(t, "nchan"), Nsamp: rapid.SampledFrom([]int{1, 5, 20}).Draw(t, "nsamp"),
		Bias: rapid.Bool().Draw(t, "bias"), PulseSign: rapid.SampledFrom([]int{1, -1}).Draw(t, "pulsesign"),
		Seed: rapid.IntRange(0, 1<<20).Draw(t, "seed"), Kind: rapid.IntRange(0, 2).Draw(t, "kind")}
	n := rapid.IntRange(2, 3).Draw(t, "nbursts")
	for i := 0; i < n; i++ {
		c.Bursts = append(c.Bursts, rapid.IntRange(1, 6).Draw(t, "burst"))
	}
	return c
}

// c12rRaw is channel ch's raw 16-bit word number i (14 fraction bits are what the device keeps).
func (c c12rCase) c12rRaw(ch, i int) uint16 {
	h := uint32(c.Seed)*2654435761 + uint32(ch)*40503
	start := int(h >> 18) // anywhere in the 14-bit quantum
	var step int
	switch c.Kind {
	case 0: // slow ramps up or down: wraps to remove, offsets to carry from block to block
		step = int(h%1024) - 512
	case 1: // sits in the upper half of the quantum, small jitter
		start, step = 9000+int(h%6000), 0
	default:
		step = int(h % 16384)
	}
	j := int((uint32(i)*2246822519 + h) >> 28)
	return uint16(start+i*step+j) & 0x3fff
}

func c12rRun(c c12rCase) (v vVerdict) {
	if c.Nchan < 1 || c.Nchan > 8 || c.Nsamp < 1 || c.Nsamp > 100 || len(c.Bursts) < 1 || len(c.Bursts) > 5 {
		return v
	}
	shard, _ := strconv.Atoi(os.Getenv("VERIF_SHARD"))
	var dev *RoachDevice
	var err error
	port := 0
	for try := 0; try < 50; try++ {
		port = 30000 + (shard%64)*40 + (os.Getpid()+try)%40
		if dev, err = NewRoachDevice(fmt.Sprintf("127.0.0.1:%d", port), 10000.0); err == nil {
			break
		}
	}
	if err != nil {
		return vVerdict{Inconclusive: "cannot open a loopback ROACH device: " + err.Error()}
	}
	dev.unwrapOpts = AbacoUnwrapOptions{RescaleRaw: true, Unwrap: true, Bias: c.Bias, PulseSign: c.PulseSign, ResetAfter: 20000}
	conn, err := net.Dial("udp", fmt.Sprintf("127.0.0.1:%d", port))
	if err != nil {
		dev.conn.Close()
		return vVerdict{Inconclusive: "dial: " + err.Error()}
	}
	defer conn.Close()
	sent := 0 // samples per channel sent so far (after the sampling packet)
	send := func(sampnum uint64, first int) {
		buf := new(bytes.Buffer)
		binary.Write(buf, binary.BigEndian, packetHeader{Nchan: uint16(c.Nchan), Nsamp: uint16(c.Nsamp), Flags: 1, Sampnum: sampnum})
		d := make([]uint16, c.Nsamp*c.Nchan)
		for s := 0; s < c.Nsamp; s++ {
			for ch := 0; ch < c.Nchan; ch++ {
				d[s*c.Nchan+ch] = c.c12rRaw(ch, first+s)
			}
		}
		binary.Write(buf, binary.BigEndian, d)
		conn.Write(buf.Bytes())
	}
	// the sampling packet (its data are not part of the run): Start() reads one packet to learn the geometry
	send(0, 1000000)
	if err := dev.samplePacket(); err != nil {
		dev.conn.Close()
		return vVerdict{Inconclusive: "samplePacket: " + err.Error()}
	}
	nextBlock := make(chan *dataBlock)
	go dev.readPackets(nextBlock)
	var blocks []*dataBlock
	done := make(chan struct{})
	go func() {
		defer close(done)
		for b := range nextBlock {
			if b.err != nil {
				return // the connection was closed: end of the case
			}
			blocks = append(blocks, b)
		}
	}()
	for _, n := range c.Bursts {
		for k := 0; k < n; k++ {
			send(uint64(c.Nsamp+sent), sent)
			sent += c.Nsamp
		}
		time.Sleep(230 * time.Millisecond) // more than the 100 ms bundling time: the burst becomes a block of its own
	}
	dev.conn.Close()
	select {
	case <-done:
	case <-time.After(5 * time.Second):
		return vVerdict{Inconclusive: "the reader did not end after its connection was closed"}
	}
	out := make([][]RawType, c.Nchan)
	for bi, b := range blocks {
		if len(b.segments) != c.Nchan {
			return vFailf("roach-block-channels", "block %d has %d channels, the device sends %d", bi, len(b.segments), c.Nchan)
		}
		for ch := range b.segments {
			out[ch] = append(out[ch], b.segments[ch].rawData...)
		}
	}
	if len(out[0]) != sent {
		return vVerdict{Inconclusive: fmt.Sprintf("%d of %d samples arrived (datagram loss on loopback)", len(out[0]), sent)}
	}
	bias := dev.unwrapOpts.calcBiasLevel() >> (16 - roachFractionBits)
	for ch := 0; ch < c.Nchan; ch++ {
		ref := make([]RawType, sent)
		for i := range ref {
			ref[i] = RawType(c.c12rRaw(ch, i))
		}
		NewPhaseUnwrapper(roachFractionBits, roachBitsToDrop, true, bias, 20000, c.PulseSign, false).UnwrapInPlace(&ref)
		for i := range ref {
			if out[ch][i] != ref[i] {
				return vFailf("roach-block-dependent", "channel %d sample %d (the data arrived as %d blocks): the ROACH data path gives %d, one unwrapper over the whole channel gives %d (raw %d)",
					ch, i, len(blocks), out[ch][i], ref[i], c.c12rRaw(ch, i))
			}
		}
	}
	v.NonTrivial = len(blocks) >= 2
	if len(blocks) >= 2 {
		v.Classes = append(v.Classes, "roach-several-blocks")
	}
	return v
}

func TestVerif_C12Roach(t *testing.T) { vCheck(t, "C12R", c12rGen, c12rRun) }
