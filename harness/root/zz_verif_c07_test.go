//go:build verif

package dastard

// C07: file writing is record-atomic and order-preserving under any disk timing.
//  (A) asyncbufio.Writer over a gate writer the harness opens and closes: generated interleavings of
//      Write(sizes), Flush, Close and gate open/close.
//  (B) the real LJH2.2 / LJH3 / OFF writers with FileName = a FIFO whose far end the harness reads only
//      when the script says so: the "disk" stalls until the internal queue is full, records keep
//      coming, then the disk resumes.
// Oracle: what reached the far side after Flush/Close returned is exactly the concatenation, in order,
// of the writes / records whose call returned nil (after the header); a rejected record contributes
// zero bytes.

import (
	"bytes"
	"fmt"
	"io"
	"math"
	"os"
	"path/filepath"
	"sync"
	"syscall"
	"testing"
	"time"

	"github.com/usnistgov/dastard/asyncbufio"
	"github.com/usnistgov/dastard/ljh"
	"github.com/usnistgov/dastard/off"
	"gonum.org/v1/gonum/mat"
	"pgregory.net/rapid"
)

// ---------------- (A) asyncbufio over a gate ----------------

type c07Gate struct {
	mu     sync.Mutex
	cond   *sync.Cond
	open   bool
	buf    bytes.Buffer
	writes int
}

func newC07Gate() *c07Gate {
	g := &c07Gate{open: true}
	g.cond = sync.NewCond(&g.mu)
	return g
}

func (g *c07Gate) Write(p []byte) (int, error) {
	g.mu.Lock()
	defer g.mu.Unlock()
	for !g.open {
		g.cond.Wait()
	}
	g.writes++
	return g.buf.Write(p)
}

func (g *c07Gate) set(open bool) {
	g.mu.Lock()
	g.open = open
	g.mu.Unlock()
	g.cond.Broadcast()
}

func (g *c07Gate) snapshot() []byte {
	g.mu.Lock()
	defer g.mu.Unlock()
	return append([]byte(nil), g.buf.Bytes()...)
}

type c07AOp struct {
	Op string `json:"op"` // write flush open close yield
	N  int    `json:"n"`
}

type c07ACase struct {
	Depth int      `json:"depth"`
	Ops   []c07AOp `json:"ops"`
	// CloseStalled: Close is called while the disk is still stalled (it must wait, by design) and the disk resumes a moment later
	CloseStalled bool `json:"close_stalled,omitempty"`
	// StallFlushMs: at the end one more record is written, the disk stalls, Flush is called and the disk resumes this much later;
	// however long that takes, Flush returns only when the record is in the file (and later calls still work)
	StallFlushMs int `json:"stall_flush_ms,omitempty"`
	// FlushEveryUs: the writer's periodic flush interval in microseconds (0: an hour, i.e. never within a case). The LJH and OFF
	// writers use 3 s; a short interval puts periodic flushes between - and, with a stalled disk, in the middle of - the operations
	FlushEveryUs int `json:"flush_every_us,omitempty"`
}

func c07AGen(t *rapid.T) c07ACase {
	c := c07ACase{Depth: rapid.SampledFrom([]int{1, 2, 3, 5, 8, 16}).Draw(t, "depth")}
	deep := rapid.IntRange(0, 5).Draw(t, "deep") == 0
	if deep {
		c.Depth = rapid.SampledFrom([]int{300, 1000}).Draw(t, "deepdepth") // the LJH/OFF writers use 1000
	}
	c.CloseStalled = rapid.IntRange(0, 2).Draw(t, "closestalled") == 0
	if rapid.IntRange(0, 999).Draw(t, "stallflush") == 437 { // (rapid favours the ends of a range: an inner value keeps this rare, a few cases per shard)
		c.StallFlushMs = rapid.SampledFrom([]int{300, 1200, 2300}).Draw(t, "stallms")
	}
	c.FlushEveryUs = rapid.SampledFrom([]int{0, 0, 0, 100, 400, 2000}).Draw(t, "flushevery")
	n := rapid.IntRange(1, 60).Draw(t, "nops")
	for i := 0; i < n; i++ {
		if c.FlushEveryUs > 0 && rapid.IntRange(0, 7).Draw(t, "nap") == 0 {
			c.Ops = append(c.Ops, c07AOp{Op: "yield", N: rapid.IntRange(4, 30).Draw(t, "napn")}) // long enough for periodic flushes to happen
			continue
		}
		if deep && rapid.IntRange(0, 5).Draw(t, "burst") == 0 {
			// many records at once, typically against a stalled disk
			c.Ops = append(c.Ops, c07AOp{Op: "close"}, c07AOp{Op: "burst", N: rapid.IntRange(200, 1100).Draw(t, "burstn")})
			continue
		}
		switch rapid.IntRange(0, 12).Draw(t, "opclass") {
		case 12:
			// fill the queue (the disk is alive), then one more write must find room without any flush
			c.Ops = append(c.Ops, c07AOp{Op: "open"})
			for k := 0; k < c.Depth+2 && k < 40; k++ {
				c.Ops = append(c.Ops, c07AOp{Op: "write", N: 100})
			}
			c.Ops = append(c.Ops, c07AOp{Op: "drainwait"})
		case 0:
			c.Ops = append(c.Ops, c07AOp{Op: "flush"})
		case 1, 2:
			c.Ops = append(c.Ops, c07AOp{Op: "close"})
		case 3:
			c.Ops = append(c.Ops, c07AOp{Op: "open"})
		case 4:
			c.Ops = append(c.Ops, c07AOp{Op: "yield", N: rapid.IntRange(0, 3).Draw(t, "yield")})
		default:
			sz := rapid.SampledFrom([]int{0, 1, 7, 100, 1500, 3000, 4095, 4096, 4097, 9000}).Draw(t, "size")
			c.Ops = append(c.Ops, c07AOp{Op: "write", N: sz})
		}
	}
	return c
}

func c07APattern(pos int) byte { return byte(pos*7 + pos>>8 + 1) }

func c07ARun(c c07ACase) (v vVerdict) {
	if c.Depth < 1 {
		return v
	}
	gate := newC07Gate()
	every := time.Hour
	if c.FlushEveryUs > 0 && c.FlushEveryUs <= 1000000 {
		every = time.Duration(c.FlushEveryUs) * time.Microsecond
	}
	aw := asyncbufio.NewWriter(gate, c.Depth, every)
	var want []byte
	rejected, acceptedAfterReject := 0, 0
	drainWaits := 0
	pos := 0
	var ops []c07AOp
	for _, op := range c.Ops {
		if op.Op == "burst" {
			for k := 0; k < op.N && k < 2000; k++ {
				ops = append(ops, c07AOp{Op: "write", N: 120 + k%7})
			}
			continue
		}
		ops = append(ops, op)
	}
	stalled := false
	for i, op := range ops {
		switch op.Op {
		case "write":
			p := make([]byte, op.N)
			for k := range p {
				p[k] = c07APattern(pos + k)
			}
			n, err := aw.Write(p)
			if err == nil {
				if n != len(p) {
					return vFailf("async-short-accept", "op %d: Write(%d bytes) returned n=%d with nil error", i, len(p), n)
				}
				want = append(want, p...)
				pos += len(p)
				if rejected > 0 {
					acceptedAfterReject++
				}
			} else {
				if n != 0 {
					return vFailf("async-partial-reject", "op %d: Write(%d bytes) returned n=%d together with error %v", i, len(p), n, err)
				}
				rejected++
			}
		case "close":
			gate.set(false)
			stalled = true
		case "open":
			gate.set(true)
			stalled = false
		case "yield":
			for k := 0; k < op.N; k++ {
				time.Sleep(50 * time.Microsecond)
			}
		case "drainwait":
			// The disk is alive and nobody flushes: the queue must empty by itself (its own thread moves the data on), so a
			// write that does not fit now fits a moment later. "A moment" is generous: 5 s, and not judged on a starved machine.
			if stalled {
				continue
			}
			p := make([]byte, 64)
			for k := range p {
				p[k] = c07APattern(pos + k)
			}
			deadline := time.Now().Add(5 * time.Second)
			accepted := false
			for !accepted && time.Now().Before(deadline) {
				if n, err := aw.Write(p); err == nil && n == len(p) {
					accepted = true
				} else {
					time.Sleep(200 * time.Microsecond)
				}
			}
			if !accepted {
				if vStarved(5 * time.Second) {
					return vVerdict{Inconclusive: "the writer's thread was given no time (overloaded machine)"}
				}
				return vFailf("queue-never-drains", "op %d: with the disk alive, a queue of depth %d still refuses a 64-byte write after 5 s without a flush: nothing empties the queue", i, c.Depth)
			}
			want = append(want, p...)
			pos += len(p)
			drainWaits++
		case "flush":
			gate.set(true) // a flush against a dead disk blocks by design; the disk must be alive for it to return
			stalled = false
			aw.Flush()
			if got := gate.snapshot(); !bytes.Equal(got, want) {
				return vFailf("async-flush-content", "op %d: after Flush returned the underlying writer holds %d bytes, accepted so far %d; first difference at %d",
					i, len(got), len(want), c07FirstDiff(got, want))
			}
		}
	}
	if c.StallFlushMs > 0 && c.StallFlushMs <= 5000 {
		gate.set(true)
		aw.Flush()
		for round := 0; round < 2; round++ { // the second round: a Flush after the long one must still be a real flush
			p := make([]byte, 700)
			for k := range p {
				p[k] = c07APattern(pos + k)
			}
			if n, err := aw.Write(p); err == nil && n == len(p) {
				want = append(want, p...)
				pos += len(p)
			}
			if round == 0 {
				gate.set(false)
				go func() {
					time.Sleep(time.Duration(c.StallFlushMs) * time.Millisecond)
					gate.set(true)
				}()
			}
			aw.Flush()
			if got := gate.snapshot(); !bytes.Equal(got, want) {
				return vFailf("async-flush-content", "Flush against a disk stalled for %d ms (round %d) returned with %d bytes in the underlying writer, accepted so far %d",
					c.StallFlushMs, round, len(got), len(want))
			}
		}
		stalled = false
		v.Classes = append(v.Classes, "flush-against-stalled-disk")
	}
	if c.CloseStalled && stalled {
		go func() {
			time.Sleep(time.Millisecond)
			gate.set(true)
		}()
		v.Classes = append(v.Classes, "close-against-stalled-disk")
	} else {
		gate.set(true)
	}
	aw.Close()
	if got := gate.snapshot(); !bytes.Equal(got, want) {
		return vFailf("async-close-content", "after Close returned the underlying writer holds %d bytes, accepted %d; first difference at %d", len(got), len(want), c07FirstDiff(got, want))
	}
	v.NonTrivial = rejected > 0 && acceptedAfterReject > 0
	if rejected > 0 {
		v.Classes = append(v.Classes, "queue-full-reached")
	}
	if c.FlushEveryUs > 0 {
		v.Classes = append(v.Classes, "periodic-flushes")
	}
	if drainWaits > 0 {
		v.Classes = append(v.Classes, "queue-empties-without-flush")
	}
	return v
}

func c07FirstDiff(a, b []byte) int {
	n := len(a)
	if len(b) < n {
		n = len(b)
	}
	for i := 0; i < n; i++ {
		if a[i] != b[i] {
			return i
		}
	}
	return n
}

func TestVerif_C07A(t *testing.T) { vCheck(t, "C07A", c07AGen, c07ARun) }

// ---------------- (B) real writers over a FIFO ----------------

type c07BCase struct {
	Kind     string `json:"kind"` // ljh22 ljh3 off
	Nsamp    int    `json:"nsamp"`
	NBases   int    `json:"nbases"`
	PipeSize int    `json:"pipe_size"`
	Before   int    `json:"before"`  // records written (and flushed) while the disk is alive
	Beyond   int    `json:"beyond"`  // write attempts after the first rejection, disk still stalled
	After    int    `json:"after"`   // records written after the disk resumed
	Flush2   bool   `json:"flush2"`  // explicit flush before close
	MaxTries int    `json:"max_tries"`
	// ShortEvery (very long LJH3 records only): every so-manieth record is a short one, so that the queue fills up at varying points
	ShortEvery int `json:"short_every,omitempty"`
}

func c07BGen(t *rapid.T) c07BCase {
	c := c07BCase{Kind: rapid.SampledFrom([]string{"ljh22", "ljh3", "off"}).Draw(t, "kind")}
	c.Nsamp = rapid.SampledFrom([]int{1, 2, 3, 5, 8, 13, 30, 100, 257}).Draw(t, "nsamp")
	if c.Kind == "ljh3" && rapid.IntRange(0, 149).Draw(t, "longrecord") == 77 {
		c.ShortEvery = rapid.IntRange(2, 7).Draw(t, "shortevery")
		// a very long LJH3 record (as long as the writer's own buffer): a few cases per shard, each fills the queue with 65 kB records
		c.Nsamp = rapid.SampledFrom([]int{32768, 32768, 40000}).Draw(t, "longnsamp")
	}
	if c.Kind == "off" && rapid.IntRange(0, 19).Draw(t, "longoff") == 0 {
		c.Nsamp = rapid.SampledFrom([]int{1000, 1200, 2000}).Draw(t, "offnsamp") // long records: large projector and basis matrices in the header
	}
	c.NBases = rapid.IntRange(1, 5).Draw(t, "nbases")
	c.PipeSize = rapid.SampledFrom([]int{4096, 8192, 65536}).Draw(t, "pipe")
	c.Before = rapid.IntRange(0, 7).Draw(t, "before")
	c.Beyond = rapid.IntRange(0, 9).Draw(t, "beyond")
	c.After = rapid.IntRange(1, 6).Draw(t, "after")
	c.Flush2 = rapid.Bool().Draw(t, "flush2")
	c.MaxTries = 400000
	return c
}

type c07Reader struct {
	f      *os.File
	mu     sync.Mutex
	cond   *sync.Cond
	open   bool
	data   []byte
	done   chan struct{}
	rerr   error
}

func (r *c07Reader) loop() {
	defer close(r.done)
	buf := make([]byte, 1<<16)
	for {
		r.mu.Lock()
		for !r.open {
			r.cond.Wait()
		}
		r.mu.Unlock()
		n, err := r.f.Read(buf)
		r.mu.Lock()
		r.data = append(r.data, buf[:n]...)
		r.mu.Unlock()
		if err != nil {
			if err != io.EOF {
				r.rerr = err
			}
			return
		}
	}
}

func (r *c07Reader) set(open bool) {
	r.mu.Lock()
	r.open = open
	r.mu.Unlock()
	r.cond.Broadcast()
}

var c07Counter int

func c07Sample(rec, i int) uint16 { return uint16(rec*977 + i*31 + 3) }

func c07BRun(c c07BCase) (v vVerdict) {
	if c.Nsamp < 1 || c.Nsamp > 70000 || c.NBases < 1 || c.NBases > 16 || c.MaxTries < 1 {
		return v
	}
	c07Counter++
	dir := os.Getenv("VERIF_WORK")
	if dir == "" {
		dir = os.TempDir()
	}
	path := filepath.Join(dir, fmt.Sprintf("c07_%d_%d.fifo", os.Getpid(), c07Counter))
	os.Remove(path)
	if err := syscall.Mkfifo(path, 0o600); err != nil {
		panic("harness: mkfifo: " + err.Error())
	}
	defer os.Remove(path)
	rf, err := os.OpenFile(path, os.O_RDONLY|syscall.O_NONBLOCK, 0)
	if err != nil {
		panic("harness: open fifo: " + err.Error())
	}
	defer rf.Close()
	syscall.Syscall(syscall.SYS_FCNTL, rf.Fd(), 1031 /* F_SETPIPE_SZ */, uintptr(c.PipeSize))
	rd := &c07Reader{f: rf, done: make(chan struct{})}
	rd.cond = sync.NewCond(&rd.mu)

	// the writer under test
	var writeRec func(k int) error
	var flush, closeW func()
	var recBytes func(k int) []byte
	le := func(x uint64, n int) []byte {
		b := make([]byte, n)
		for i := 0; i < n; i++ {
			b[i] = byte(x >> (8 * i))
		}
		return b
	}
	// LJH3 records may differ in length: next to very long records there are short ones (one queue entry or several per record,
	// so the queue fills up at varying points of a record)
	nsampOf := func(k int) int {
		se := c.ShortEvery
		if se < 2 {
			se = 3
		}
		if c.Kind == "ljh3" && c.Nsamp >= 32768 && k%se == 1 {
			return 7
		}
		return c.Nsamp
	}
	samples := func(k int) ([]uint16, []byte) {
		s := make([]uint16, nsampOf(k))
		var b []byte
		for i := range s {
			s[i] = c07Sample(k, i)
			b = append(b, byte(s[i]), byte(s[i]>>8))
		}
		return s, b
	}
	switch c.Kind {
	case "ljh22":
		w := &ljh.Writer{FileName: path, Samples: c.Nsamp, Presamples: 0, SubframeDivisions: 1, Timebase: 1e-6}
		if err := w.CreateFile(); err != nil {
			panic("harness: create: " + err.Error())
		}
		w.WriteHeader(time.Unix(0, 0))
		writeRec = func(k int) error { s, _ := samples(k); return w.WriteRecord(int64(k), int64(1000+k), s) }
		recBytes = func(k int) []byte {
			_, sb := samples(k)
			return append(append(le(uint64(k), 8), le(uint64(1000+k), 8)...), sb...)
		}
		flush, closeW = w.Flush, w.Close
	case "ljh3":
		w := &ljh.Writer3{FileName: path, Timebase: 1e-6}
		if err := w.CreateFile(); err != nil {
			panic("harness: create: " + err.Error())
		}
		w.WriteHeader()
		writeRec = func(k int) error { s, _ := samples(k); return w.WriteRecord(int32(3), int64(k), int64(1000+k), s) }
		recBytes = func(k int) []byte {
			_, sb := samples(k)
			b := append(le(uint64(nsampOf(k)), 4), le(3, 4)...)
			b = append(b, le(uint64(k), 8)...)
			b = append(b, le(uint64(1000+k), 8)...)
			return append(b, sb...)
		}
		flush, closeW = w.Flush, w.Close
	default:
		P := mat.NewDense(c.NBases, c.Nsamp, nil)
		B := mat.NewDense(c.Nsamp, c.NBases, nil)
		w := off.NewWriter(path, 0, "chan0", 0, 1, c.Nsamp, 1e-6, P, B, "d", "v", "g", "s", off.TimeDivisionMultiplexingInfo{}, off.PixelInfo{})
		if err := w.CreateFile(); err != nil {
			panic("harness: create: " + err.Error())
		}
		w.WriteHeader()
		coefs := func(k int) []float32 {
			cf := make([]float32, c.NBases)
			for i := range cf {
				cf[i] = float32(k*10 + i)
			}
			return cf
		}
		writeRec = func(k int) error {
			return w.WriteRecord(int32(c.Nsamp), 1, int64(k), int64(1000+k), float32(k), float32(-k), 0.5, coefs(k))
		}
		recBytes = func(k int) []byte {
			b := append(le(uint64(c.Nsamp), 4), le(1, 4)...)
			b = append(b, le(uint64(k), 8)...)
			b = append(b, le(uint64(1000+k), 8)...)
			f32 := func(x float32) []byte { return le(uint64(mathFloat32bits(x)), 4) }
			b = append(b, f32(float32(k))...)
			b = append(b, f32(float32(-k))...)
			b = append(b, f32(0.5)...)
			for _, x := range coefs(k) {
				b = append(b, f32(x)...)
			}
			return b
		}
		flush, closeW = w.Flush, w.Close
	}
	go rd.loop()

	var want []byte // concatenation of accepted records
	k := 0
	blockedWrites := 0
	accept := func() error {
		// WriteRecord is meant not to wait for the disk.  Should it do so while the far end is not reading,
		// let the disk resume after 3 s so that the case (and the run) ends; the contents are still judged.
		res := make(chan error, 1)
		kk := k
		go func() { res <- writeRec(kk) }()
		var err error
		select {
		case err = <-res:
		case <-time.After(3 * time.Second):
			blockedWrites++
			rd.set(true)
			err = <-res
		}
		if err == nil {
			want = append(want, recBytes(k)...)
		}
		k++
		return err
	}
	// phase 1: disk alive
	rd.set(true)
	for i := 0; i < c.Before; i++ {
		if err := accept(); err != nil {
			closeW()
			v.Inconclusive = "record rejected while the disk was alive and the queue nearly empty: " + err.Error()
			return v
		}
	}
	flush()
	// phase 2: disk stalls; write until the queue is full
	rd.set(false)
	rejected := 0
	tries := 0
	for ; tries < c.MaxTries; tries++ {
		if err := accept(); err != nil {
			rejected++
			break
		}
	}
	stalled := rejected > 0
	for i := 0; stalled && i < c.Beyond; i++ {
		if accept() != nil {
			rejected++
		}
	}
	// phase 3: disk resumes
	rd.set(true)
	acceptedAfter := 0
	for i := 0; i < c.After; i++ {
		// the queue drains as the disk catches up; wait (bounded) for room, a rejection here is legitimate
		ok := false
		for spin := 0; spin < 2000; spin++ {
			if accept() == nil {
				ok = true
				break
			}
			rejected++
			time.Sleep(200 * time.Microsecond)
		}
		if ok {
			acceptedAfter++
		}
	}
	if c.Flush2 {
		flush()
	}
	closeW()
	select {
	case <-rd.done:
	case <-time.After(20 * time.Second):
		v.Inconclusive = "far end of the FIFO did not reach EOF within 20 s after Close"
		return v
	}
	if rd.rerr != nil {
		v.Inconclusive = "fifo read: " + rd.rerr.Error()
		return v
	}
	got := rd.data
	// split off the header with the format's own rule, then the body must be exactly `want`
	var hdrLen int
	switch c.Kind {
	case "ljh22":
		i := bytes.Index(got, []byte("#End of Header\n"))
		if i < 0 {
			return vFailf("stall-header", "LJH2.2 stream has no end-of-header line (%d bytes)", len(got))
		}
		hdrLen = i + len("#End of Header\n")
	case "ljh3":
		_, n, err := vDecodeJSONPrefix(got)
		if err != nil {
			return vFailf("stall-header", "LJH3 stream: %v", err)
		}
		hdrLen = n
	default:
		_, n, err := vDecodeJSONPrefix(got)
		if err != nil {
			return vFailf("stall-header", "OFF stream: %v", err)
		}
		hdrLen = n + 2*8*c.NBases*c.Nsamp
	}
	if hdrLen > len(got) {
		return vFailf("stall-header", "stream of %d bytes shorter than its header (%d)", len(got), hdrLen)
	}
	body := got[hdrLen:]
	if !bytes.Equal(body, want) {
		d := c07FirstDiff(body, want)
		recLen := len(recBytes(0))
		return vFailf("torn-or-lost-record", "%s, %d-byte records: after Close the file body has %d bytes, the accepted records make %d; first difference at body offset %d (record %d, byte %d of it); %d write calls were rejected",
			c.Kind, recLen, len(body), len(want), d, d/recLen, d%recLen, rejected)
	}
	v.NonTrivial = stalled && acceptedAfter > 0
	v.Classes = append(v.Classes, c.Kind)
	if blockedWrites > 0 {
		v.Classes = append(v.Classes, "write-waited-for-the-disk")
	}
	if stalled {
		v.Classes = append(v.Classes, "queue-full-reached")
	} else {
		v.Classes = append(v.Classes, "stall-not-reached")
	}
	return v
}

func mathFloat32bits(x float32) uint32 { return math.Float32bits(x) }

func TestVerif_C07B(t *testing.T) { vCheck(t, "C07B", c07BGen, c07BRun) }

// C07C: the flush guarantee as the acquisition threads see it (DataPublisher.Flush over the real LJH 2.2 / LJH 3 / OFF writers on
// regular files): the C05 histories of publish / flush / pause / unpause, where every Flush is followed by an independent decode of
// the files that must hold every record accepted so far.
func TestVerif_C07C(t *testing.T) { vCheck(t, "C07C", c05Gen, c05Run) }
