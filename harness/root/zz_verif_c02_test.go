//go:build verif

package dastard

// C02: no pulse lost or invented - triggers are sound and complete across block edges.
// The emitted primary triggers are compared with an independent scan of the ground-truth stream for
// samples that satisfy the enabled criteria, per configuration epoch (since source start or the last
// reconfiguration of that channel).

import (
	"fmt"
	"math"
	"sort"
	"testing"

	"pgregory.net/rapid"
)

func c02Gen(t *rapid.T) vPipeCase {
	var c vPipeCase
	c.Nchan = rapid.IntRange(1, 2).Draw(t, "nchan")
	c.Npre, c.Nsamp = vGenLengths(t)
	c.F0 = vGenF0(t)
	c.PeriodNs = rapid.SampledFrom([]int64{1000, 6400, 320, 1001}).Draw(t, "period")
	if rapid.IntRange(0, 4).Draw(t, "oddrate") == 0 {
		// a sample rate whose period is not a whole number of nanoseconds: the blocks carry the rounded period, the auto
		// delay is counted in samples of the true rate
		c.RateHz = rapid.SampledFrom([]float64{408163265.3, 134228187.9, 289855072.5, 392156862.7, 3e6, 7e6, 150e6}).Draw(t, "ratehz")
		c.PeriodNs = int64(math.Round(1e9 / c.RateHz))
	}
	total := rapid.IntRange(3*c.Nsamp, 40*c.Nsamp).Draw(t, "total")
	c.Blocks = vGenPartition(t, c.Npre, c.Nsamp, total)
	for ch := 0; ch < c.Nchan; ch++ {
		s := vGenStream(t)
		if s.Noise > 5 {
			s.Noise = 2
		}
		c.Streams = append(c.Streams, s)
	}
	c.Pulses = vGenPulses(t, c.Nchan, c.Nsamp, c.Blocks, 8)
	c.SlowPub = rapid.IntRange(0, 11).Draw(t, "slowpub") == 0
	c.ViaRPC = rapid.IntRange(0, 2).Draw(t, "viarpc") == 0
	all := make([]int, c.Nchan)
	for i := range all {
		all[i] = i
	}
	npre, nsamp := c.Npre, c.Nsamp
	switch rapid.IntRange(0, 9).Draw(t, "startmode") {
	case 0, 1, 2: // fresh start with settings restored from the saved configuration, nothing else
		c.Restored = append(c.Restored, vRestored{Chans: all, Trig: vGenTrig(t, npre, nsamp, c.PeriodNs, false)})
	case 3: // restored: two groups of channels saved with different settings (when there are two channels)
		if c.Nchan >= 2 {
			k := rapid.IntRange(1, c.Nchan-1).Draw(t, "split")
			c.Restored = append(c.Restored, vRestored{Chans: all[:k], Trig: vGenTrig(t, npre, nsamp, c.PeriodNs, false)},
				vRestored{Chans: all[k:], Trig: vGenTrig(t, npre, nsamp, c.PeriodNs, false)})
		} else {
			c.Restored = append(c.Restored, vRestored{Chans: all, Trig: vGenTrig(t, npre, nsamp, c.PeriodNs, false)})
		}
	case 4: // restored for one channel only
		c.Restored = append(c.Restored, vRestored{Chans: []int{rapid.IntRange(0, c.Nchan-1).Draw(t, "rch")}, Trig: vGenTrig(t, npre, nsamp, c.PeriodNs, false)})
	default:
		c.Hist = append(c.Hist, vHistOp{At: 0, Kind: "trigger", Chans: all, Trig: vGenTrig(t, npre, nsamp, c.PeriodNs, false)})
	}
	nops := rapid.IntRange(0, 3).Draw(t, "nhist")
	if len(c.Restored) > 0 && rapid.Bool().Draw(t, "purefresh") {
		nops = 0
	}
	// One channel may run edge-multi (its triggers are not judged here): it refuses record lengths that leave fewer
	// post-trigger samples than its monotonicity count, and a refused request must not change any other channel either.
	guard := -1
	guardMono := 0
	if c.Nchan >= 2 && len(c.Restored) == 0 && nsamp-npre >= 4 && rapid.IntRange(0, 2).Draw(t, "guard") == 0 {
		guard = c.Nchan - 1
		guardMono = rapid.IntRange(4, nsamp-npre).Draw(t, "guardmono")
	}
	if guard >= 0 {
		c.Hist = append(c.Hist, vHistOp{At: 0, Kind: "trigger", Chans: []int{guard}, Trig: vTrigCfg{EMT: true, EMTMode: 2, EMTLevel: 100, EMTNMono: guardMono, EMTNoZero: true}})
	}
	at := 0
	for i := 0; i < nops && len(c.Blocks) > 1; i++ {
		at = rapid.IntRange(at, len(c.Blocks)-1).Draw(t, "at")
		if guard >= 0 && rapid.IntRange(0, 1).Draw(t, "refused") == 0 {
			np := rapid.IntRange(3, 5).Draw(t, "badnpre")
			c.Hist = append(c.Hist, vHistOp{At: at, Kind: "trylengths", Npre: np, Nsamp: np + rapid.IntRange(1, guardMono-1).Draw(t, "badpost")})
			continue
		}
		switch rapid.IntRange(0, 2).Draw(t, "histkind") {
		case 0:
			chans := all
			if c.Nchan > 1 && rapid.Bool().Draw(t, "onechan") {
				chans = []int{rapid.IntRange(0, c.Nchan-1).Draw(t, "hch")}
			}
			c.Hist = append(c.Hist, vHistOp{At: at, Kind: "trigger", Chans: chans, Trig: vGenTrig(t, npre, nsamp, c.PeriodNs, false)})
		case 1:
			c.Hist = append(c.Hist, vHistOp{At: at, Kind: "lengths", Npre: npre, Nsamp: nsamp})
		default:
			np, ns := vGenLengths(t)
			if guard >= 0 && ns-np < guardMono {
				ns = np + guardMono // lengths the edge-multi channel accepts
			}
			c.Hist = append(c.Hist, vHistOp{At: at, Kind: "lengths", Npre: np, Nsamp: ns})
			npre, nsamp = np, ns
		}
	}
	// Another channel group-triggers one of the judged channels: the secondary records it receives are not triggers of its
	// own and must not change which of its own pulses are found.
	if c.Nchan >= 2 && guard < 0 && rapid.IntRange(0, 3).Draw(t, "connect") == 0 {
		src := rapid.IntRange(0, c.Nchan-1).Draw(t, "consrc")
		rx := (src + 1 + rapid.IntRange(0, c.Nchan-2).Draw(t, "conrx")) % c.Nchan
		cat := 0
		if len(c.Blocks) > 1 && rapid.Bool().Draw(t, "conlate") {
			cat = rapid.IntRange(0, len(c.Blocks)-1).Draw(t, "conat")
		}
		c.Hist = append(c.Hist, vHistOp{At: cat, Kind: "connect", Src: src, Rx: []int{rx}})
		sort.SliceStable(c.Hist, func(a, b int) bool { return c.Hist[a].At < c.Hist[b].At })
	}
	return c
}

type c02Trig struct {
	g     int64 // truth index
	block int
}

func c02Run(c vPipeCase) (v vVerdict) {
	if !c.valid() {
		return v
	}
	connected := false
	emtChan := map[int]bool{} // channels that ever ran edge-multi: present, but their triggers are C08's business (not judged here at all)
	for _, h := range c.Hist {
		if h.Kind != "trigger" && h.Kind != "lengths" && h.Kind != "trylengths" && h.Kind != "connect" {
			return v
		}
		if h.Kind == "connect" {
			connected = true
			if h.Src < 0 || h.Src >= c.Nchan || len(h.Rx) != 1 || h.Rx[0] < 0 || h.Rx[0] >= c.Nchan || h.Rx[0] == h.Src {
				return v
			}
		}
		if h.Kind == "trigger" && h.Trig.EMT {
			for _, ch := range h.Chans {
				emtChan[ch] = true
			}
		}
	}
	if len(emtChan) == c.Nchan {
		return v
	}
	tr, fail := vRunPipe(&c, func(tr *vTrace, k int, recs []*DataRecord) *vVerdict {
		// each record must be a primary of its channel (no group triggers here) and a valid excerpt
		for _, r := range recs {
			if f := vCheckExcerpt(&c, tr, k, r); f != nil {
				return f
			}
		}
		n := 0
		for ch := range tr.Blocks[k].Primary {
			n += len(tr.Blocks[k].Primary[ch])
		}
		if n != len(recs) && !(connected && n < len(recs)) { // with a group-trigger connection there are secondary records as well
			f := vFailf("record-vs-trigger-count", "block %d: %d primary triggers but %d records published", k, n, len(recs))
			return &f
		}
		return nil
	})
	if fail != nil {
		return *fail
	}
	nearBoundary := false
	classes := map[string]bool{}
	for ch := 0; ch < c.Nchan; ch++ {
		if emtChan[ch] {
			continue
		}
		// sign-corrected stream
		x := make([]int, len(tr.Truth[ch]))
		for i, r := range tr.Truth[ch] {
			if c.Streams[ch].Signed {
				x[i] = int(uint16(r) + 32768)
			} else {
				x[i] = int(r)
			}
		}
		var trigs []c02Trig
		for k, bi := range tr.Blocks {
			for _, f := range bi.Primary[ch] {
				trigs = append(trigs, c02Trig{g: int64(f) - c.F0, block: k})
			}
		}
		// (no ordering is demanded across epochs: after a reconfiguration the retained history is rescanned)
		everConfigured := false
		// walk epochs
		for ks := 0; ks < len(tr.Blocks); {
			ke := ks
			for ke+1 < len(tr.Blocks) && tr.Blocks[ke+1].Epoch[ch] == tr.Blocks[ks].Epoch[ch] {
				ke++
			}
			bi := tr.Blocks[ks]
			cfg, npre, nsamp, E := bi.Trig[ch], bi.Npre, bi.Nsamp, bi.Epoch[ch]
			for _, h := range c.Hist {
				if h.Kind == "trigger" && h.At <= ks {
					for _, hc := range h.Chans {
						if hc == ch {
							everConfigured = true
						}
					}
				}
			}
			end := tr.Blocks[ke].Start + tr.Blocks[ke].Len // samples delivered by the end of the epoch
			lo, hi := E+npre, end-(nsamp-npre)-1            // decidable range [lo, hi]
			kind := "configured"
			if len(c.Restored) > 0 && ks == 0 {
				kind = "fresh-restored"
			} else if ks > 0 && (tr.Blocks[ks-1].Npre != npre || tr.Blocks[ks-1].Nsamp != nsamp) {
				kind = "lengths-changed"
			}
			classes["epoch:"+kind] = true
			tlev := cfg.LevelLevel
			if c.Streams[ch].Signed {
				tlev = int(uint16(tlev) + 32768)
			}
			edge := func(i int) bool {
				if !cfg.Edge || i < 3 {
					return false
				}
				d := x[i] + x[i-1] - x[i-2] - x[i-3]
				return (cfg.EdgeRising && d >= cfg.EdgeLevel) || (cfg.EdgeFalling && d <= -cfg.EdgeLevel)
			}
			level := func(i int) bool {
				if !cfg.Level || i < 1 {
					return false
				}
				if cfg.LevelRising {
					return x[i] >= tlev && x[i-1] < tlev
				}
				return x[i] <= tlev && x[i-1] > tlev
			}
			// triggers emitted during this epoch, and all triggers emitted so far (dead time reaches across epochs)
			var mine []int64
			var sofar []int64
			if everConfigured {
				sofar = append(sofar, -c.F0) // ConfigureTriggers "forgets" the last trigger by setting it to frame 0
			}
			for _, tg := range trigs {
				if tg.block <= ke {
					sofar = append(sofar, tg.g)
				}
				if tg.block >= ks && tg.block <= ke {
					mine = append(mine, tg.g)
				}
			}
			sort.Slice(mine, func(a, b int) bool { return mine[a] < mine[b] })
			// 1. soundness
			for _, g := range mine {
				if cfg.Auto {
					continue
				}
				if !(edge(int(g)) || level(int(g))) {
					return vFailf("unsound-trigger", "ch %d (%s epoch from index %d, npre/nsamp %d/%d, cfg %+v): primary trigger at stream index %d (frame %d) satisfies no enabled criterion; samples around it %v",
						ch, kind, E, npre, nsamp, cfg, g, g+c.F0, x[maxInt(0, int(g)-4):minInt(len(x), int(g)+2)])
				}
			}
			isTrig := map[int64]bool{}
			for _, g := range sofar {
				isTrig[g] = true
			}
			// 2./3. completeness
			for i := lo; i <= hi; i++ {
				e, l := edge(i), level(i)
				if !e && !l {
					continue
				}
				for _, bj := range tr.Blocks[ks : ke+1] {
					b := bj.Start + bj.Len
					if i-b <= nsamp && b-i <= nsamp && bj.Start > E {
						nearBoundary = true
					}
				}
				if isTrig[int64(i)] {
					continue
				}
				okE, okL := !e, !l
				for _, g := range sofar {
					if e && g < int64(i) && int64(i) <= g+int64(nsamp) {
						okE = true
					}
					d := int64(i) - g
					if l && d >= -int64(nsamp) && d <= int64(nsamp) {
						okL = true
					}
				}
				if e && !okE {
					return vFailf("edge-missed", "ch %d (%s epoch from index %d, blocks %d..%d, npre/nsamp %d/%d, edge level %d): sample index %d (frame %d) satisfies the edge criterion, is no trigger and lies in no dead time; triggers so far %v; samples %v; block ends %v",
						ch, kind, E, ks, ke, npre, nsamp, cfg.EdgeLevel, i, int64(i)+c.F0, c02Near(sofar, int64(i), 3*int64(nsamp)), x[i-3:i+1], c02BlockEnds(tr, i, nsamp))
				}
				if l && !e && !okL {
					return vFailf("level-missed", "ch %d (%s epoch from index %d, blocks %d..%d, npre/nsamp %d/%d, level %d rising=%v): sample index %d (frame %d) crosses the level, is no trigger and is not within one record of a trigger; triggers so far %v; samples %v; block ends %v",
						ch, kind, E, ks, ke, npre, nsamp, cfg.LevelLevel, cfg.LevelRising, i, int64(i)+c.F0, c02Near(sofar, int64(i), 3*int64(nsamp)), x[i-1:i+1], c02BlockEnds(tr, i, nsamp))
				}
			}
			// 4. edge-only: no overlapping records inside an epoch
			if cfg.Edge && !cfg.Level && !cfg.Auto {
				for j := 1; j < len(mine); j++ {
					if mine[j]-mine[j-1] < int64(nsamp) {
						return vFailf("edge-overlap", "ch %d (%s epoch): edge-only triggers at indices %d and %d overlap (record length %d)", ch, kind, mine[j-1], mine[j], nsamp)
					}
				}
			}
			// 5. auto without veto: bounded gaps
			if cfg.Auto && cfg.AutoVeto == 0 {
				D := int(cfg.AutoDelayNs / c.PeriodNs)
				bound := int64(maxInt(D, nsamp) + nsamp)
				if c.RateHz > 0 { // the delay is so many samples of the true rate (one more for rounding at a half)
					D = int(float64(cfg.AutoDelayNs)*1e-9*c.RateHz + 0.5)
					bound = int64(maxInt(D, nsamp) + nsamp + 1)
				}
				prev := int64(lo) // a first trigger is due within one bound of the first decidable sample
				for _, g := range mine {
					if g-prev > bound && prev >= int64(lo) {
						return vFailf("auto-gap", "ch %d (%s epoch from %d, npre/nsamp %d/%d, auto delay %d samples): gap %d between triggers at %d and %d exceeds %d", ch, kind, E, npre, nsamp, D, g-prev, prev, g, bound)
					}
					if g > prev {
						prev = g
					}
				}
				if int64(hi)-prev > bound {
					return vFailf("auto-gap", "ch %d (%s epoch from %d, blocks %d..%d, npre/nsamp %d/%d, auto delay %d samples): no trigger in the %d decidable samples after index %d (bound %d, decidable up to %d)", ch, kind, E, ks, ke, npre, nsamp, D, int64(hi)-prev, prev, bound, hi)
				}
			}
			ks = ke + 1
		}
	}
	v.NonTrivial = nearBoundary
	if tr.Refused > 0 {
		classes["refused-length-change"] = true
	}
	if c.SlowPub {
		classes["slow-publisher"] = true
	}
	if connected {
		classes["group-trigger-receiver"] = true
	}
	if c.ViaRPC {
		classes["requests-through-rpc-layer"] = true
	}
	if c.RateHz > 0 {
		classes["odd-sample-rate"] = true
	}
	for k := range classes {
		v.Classes = append(v.Classes, k)
	}
	return v
}

func c02Near(ts []int64, i, w int64) []int64 {
	var out []int64
	for _, g := range ts {
		if g >= i-w && g <= i+w {
			out = append(out, g)
		}
	}
	return out
}

func c02BlockEnds(tr *vTrace, i, nsamp int) string {
	s := ""
	for k, b := range tr.Blocks {
		e := b.Start + b.Len
		if e >= i-3*nsamp && e <= i+3*nsamp {
			s += fmt.Sprintf("%d:%d ", k, e)
		}
	}
	return s
}

func maxInt(a, b int) int {
	if a > b {
		return a
	}
	return b
}

func TestVerif_C02(t *testing.T) { vCheck(t, "C02", c02Gen, c02Run) }
