//go:build verif

package dastard

// C10: source life cycle - start/stop always completes, cleans up, and is repeatable.
// A generated history of Start, (concurrent) Stops, source-initiated termination, queued requests,
// writing, raw-block archive requests, reconfiguration and injected start failures is applied to ONE
// source object through the real Start/CoreLoop/Stop.  After every stop round: state Inactive, the
// goroutine census back to the pre-start set, writing stopped, no open file in the output directory;
// a later Start succeeds and delivers blocks.

import (
	"bytes"
	"encoding/binary"
	"fmt"
	"net"
	"os"
	"path/filepath"
	"sort"
	"strconv"
	"strings"
	"sync"
	"sync/atomic"
	"testing"
	"time"

	"github.com/spf13/viper"
	"github.com/usnistgov/dastard/packets"
	"pgregory.net/rapid"
)

type c10Op struct {
	Op      string `json:"op"` // start stop selfend request wstart wstop archive wait reconf failnext garbage
	K       int    `json:"k,omitempty"`
	Stagger []int  `json:"stagger_us,omitempty"`
	Kind    string `json:"kind,omitempty"`
	N       int    `json:"n,omitempty"`
}

type c10Case struct {
	Source string  `json:"source"` // scripted triangle simpulse erroring abaco udp
	Nchan  int     `json:"nchan"`
	FailBy string  `json:"fail_by,omitempty"` // udp sources: why the first start fails: "" nothing is sent yet, "overlap" two channel groups sharing a channel number arrive
	Dwell  int     `json:"dwell_ms,omitempty"` // let every run last at least this long after its first block (C17 workloads)
	// Unwrap (udp sources): 0 no phase unwrapping; 1 rescale+unwrap, reset after 20000 samples; 2 rescale+unwrap with the reset
	// interval left at 0 (a client omitting the field); 3 unwrap without rescale. 2 and 3 cannot work: Configure may refuse them,
	// and what it accepts must start or fail cleanly.
	Unwrap int `json:"unwrap,omitempty"`
	Ops    []c10Op `json:"ops"`
}

// c10Endless produces Abaco packets for one channel group forever (two per read tick).
type c10Endless struct {
	cc    c03Case
	next  int
	calls int
}

func (p *c10Endless) start() error        { return nil }
func (p *c10Endless) discardStale() error { return nil }
func (p *c10Endless) stop() error         { return nil }
func (p *c10Endless) make(n int) []*packets.Packet {
	var out []*packets.Packet
	for i := 0; i < n; i++ {
		pk, err := c03MakePacket(&p.cc, 0, p.next)
		if err != nil {
			panic("harness: " + err.Error())
		}
		p.next++
		out = append(out, pk)
	}
	return out
}
func (p *c10Endless) samplePackets(time.Duration) ([]*packets.Packet, error) { return p.make(4), nil }
func (p *c10Endless) ReadAllPackets() ([]*packets.Packet, error) {
	out := p.make(2)
	p.calls++
	if p.calls%2 == 0 {
		// an external-trigger packet as the firmware sends them (recorded in the repository's test data)
		if ext := c10ExtTrigPacket(); ext != nil {
			if p.calls%4 == 0 {
				out = append([]*packets.Packet{ext}, out...) // sometimes ahead of the data packets of the same read
			} else {
				out = append(out, ext)
			}
			if os.Getenv("VERIF_DEBUG") != "" {
				fmt.Println("c10: external-trigger packet injected at call", p.calls)
			}
		} else if os.Getenv("VERIF_DEBUG") != "" {
			fmt.Println("c10: no external-trigger packet available from", os.Getenv("VERIF_REPO_DIR"))
		}
	}
	return out, nil
}

var c10ExtTrigBytes []byte

// c10ExtTrigPacket decodes a fresh copy of the first external-trigger packet of testData/timer_packets.bin.
func c10ExtTrigPacket() *packets.Packet {
	if c10ExtTrigBytes == nil {
		b, err := os.ReadFile(filepath.Join(os.Getenv("VERIF_REPO_DIR"), "testData", "timer_packets.bin"))
		if err != nil {
			c10ExtTrigBytes = []byte{}
			return nil
		}
		c10ExtTrigBytes = b
	}
	if len(c10ExtTrigBytes) == 0 {
		return nil
	}
	p, err := packets.ReadPacket(bytes.NewReader(c10ExtTrigBytes))
	if err != nil || !p.IsExternalTrigger() {
		return nil
	}
	return p
}

var c10Counter int

type c10Env struct {
	c        *c10Case
	ds       DataSource // the monitored source handed to Start
	mon      *vMonitor
	any      *AnySource
	scripted *vScripted
	abaco    *AbacoSource
	queued   chan func()
	root     string
	baseline map[string]int
	started  int
	udpPort  int
	udpPort2 int
	blocker  net.PacketConn // holds the second UDP port so that the first start cannot bind it
	udpStop  chan struct{}
	card     *vLiveCard // lancero: the card in use
}

func c10Census() map[string]int {
	m := map[string]int{}
	for _, g := range vDastardGoroutines() {
		name := g
		if i := strings.Index(name, " ["); i > 0 {
			name = name[:i]
		}
		m[name]++
	}
	return m
}

func c10Extra(now, base map[string]int) []string {
	var out []string
	for k, n := range now {
		if n > base[k] {
			out = append(out, fmt.Sprintf("%s x%d", k, n-base[k]))
		}
	}
	sort.Strings(out)
	return out
}

// watch runs f under a watchdog; blockedIn names the frame a provably wedged goroutine sits in.
func c10Watch(name string, f func(), blockedIn ...string) *vVerdict {
	done := make(chan struct{})
	go func() { f(); close(done) }()
	select {
	case <-done:
		return nil
	case <-time.After(10 * time.Second):
	}
	d1 := vGoroutineDump()
	select {
	case <-done:
		return nil
	case <-time.After(1500 * time.Millisecond):
	}
	d2 := vGoroutineDump()
	stuck := func(d string) string {
		for _, g := range strings.Split(d, "\n\n") {
			if !strings.Contains(g, "c10Watch") && !strings.Contains(g, "c10Run") {
				continue
			}
			for _, b := range blockedIn {
				if strings.Contains(g, b) && (strings.Contains(g, "[semacquire") || strings.Contains(g, "[sync.WaitGroup.Wait") || strings.Contains(g, "[chan ") || strings.Contains(g, "[sync.Mutex.Lock")) {
					return g
				}
			}
		}
		return ""
	}
	if g := stuck(d1); g != "" && stuck(d2) != "" {
		v := vFailf("blocked|"+name, "%s did not return: after 10 s and again 1.5 s later it is blocked at the same place\n%s", name, vTrim(g, 2000))
		return &v
	}
	v := vVerdict{Inconclusive: name + " did not return within 11.5 s but is not provably blocked"}
	return &v
}

func (e *c10Env) openFiles() []string {
	var out []string
	ents, _ := os.ReadDir("/proc/self/fd")
	for _, en := range ents {
		if tgt, err := os.Readlink("/proc/self/fd/" + en.Name()); err == nil && strings.HasPrefix(tgt, e.root) {
			out = append(out, tgt)
		}
	}
	return out
}

// afterStop checks the postconditions once every Stop call has returned.
func (e *c10Env) afterStop(when string) *vVerdict {
	if st := e.ds.GetState(); st != Inactive {
		v := vFailf("not-inactive", "%s: all Stop calls have returned but the source state is %d (0=Inactive 1=Starting 2=Active 3=Stopping)", when, st)
		return &v
	}
	if e.card != nil {
		e.card.mu.Lock()
		adap, coll := e.card.adapOn, e.card.collOn
		e.card.mu.Unlock()
		if adap || coll {
			v := vFailf("card-still-running", "%s: all Stop calls have returned but the Lancero card has not been switched off (adapter running %v, collector running %v)", when, adap, coll)
			return &v
		}
	}
	if e.ds.WritingIsActive() {
		v := vFailf("writing-still-active", "%s: all Stop calls have returned but writing is still reported active (%s)", when, e.ds.ComputeWritingState().FilenamePattern)
		return &v
	}
	deadline := time.Now().Add(3 * time.Second)
	var extra []string
	for {
		extra = c10Extra(c10Census(), e.baseline)
		if len(extra) == 0 || time.Now().After(deadline) {
			break
		}
		time.Sleep(10 * time.Millisecond)
	}
	if len(extra) > 0 {
		if vStarved(20 * time.Second) {
			return &vVerdict{Inconclusive: "goroutines still alive 3 s after the stop, but this process was not scheduled for most of a second meanwhile (overloaded machine)"}
		}
		v := vFailf("goroutines-left|"+strings.Split(extra[0], " ")[0], "%s: the source is stopped but these goroutines of the run are still alive 3 s later: %v", when, extra)
		return &v
	}
	if open := e.openFiles(); len(open) > 0 {
		v := vFailf("files-open", "%s: the source is stopped but output files are still open: %v", when, open)
		return &v
	}
	return nil
}

// queue hands a closure to the core loop like the RPC layer does; returns false if nobody took it.
func (e *c10Env) queue(f func(), patience time.Duration) bool {
	done := make(chan struct{})
	select {
	case e.queued <- func() { f(); close(done) }:
	case <-time.After(patience):
		return false
	}
	select {
	case <-done:
		return true
	case <-time.After(10 * time.Second):
		return false
	}
}

func (e *c10Env) udpSender(stop chan struct{}, port, first int) {
	conn, err := net.Dial("udp", fmt.Sprintf("127.0.0.1:%d", port))
	if err != nil {
		return
	}
	defer conn.Close()
	cc := c03Case{F: 4, NSample: 2, NProducers: 1, Seed: 3, Groups: []c03Group{{First: 0, Nchan: e.c.Nchan, Base: 1}}}
	n := 0
	t := time.NewTicker(2 * time.Millisecond)
	defer t.Stop()
	for {
		select {
		case <-stop:
			return
		case <-t.C:
			p := packets.NewPacket(10, 1, uint32(n), first)
			ts := uint64(5000 + n*4*1000)
			p.SetTimestamp(packets.MakeTimestamp(uint16(ts>>32), uint32(ts), 1e8))
			d := make([]int16, cc.F*e.c.Nchan)
			for i := range d {
				d[i] = int16(n + i)
			}
			p.NewData(d, []int16{int16(e.c.Nchan)})
			conn.Write(p.Bytes())
			n++
		}
	}
}

// roachSender plays a ROACH board: datagrams of header + 20 samples x Nchan 16-bit words, every 2 ms.
func (e *c10Env) roachSender(stop chan struct{}, port int) {
	conn, err := net.Dial("udp", fmt.Sprintf("127.0.0.1:%d", port))
	if err != nil {
		return
	}
	defer conn.Close()
	const nsamp = 20
	n := uint64(0)
	t := time.NewTicker(2 * time.Millisecond)
	defer t.Stop()
	for {
		select {
		case <-stop:
			return
		case <-t.C:
			buf := new(bytes.Buffer)
			binary.Write(buf, binary.BigEndian, packetHeader{Nchan: uint16(e.c.Nchan), Nsamp: nsamp, Flags: 1, Sampnum: n})
			d := make([]uint16, nsamp*e.c.Nchan)
			for i := range d {
				d[i] = uint16(int(n) + 3*i)
			}
			binary.Write(buf, binary.BigEndian, d)
			conn.Write(buf.Bytes())
			n += nsamp
		}
	}
}

// startSenders makes the hardware send data from now on (and frees the port the harness was holding).
func (e *c10Env) startSenders() {
	if e.blocker != nil {
		e.blocker.Close()
		e.blocker = nil
	}
	e.udpStop = make(chan struct{})
	if e.c.Source == "roach" {
		go e.roachSender(e.udpStop, e.udpPort)
		time.Sleep(20 * time.Millisecond)
		return
	}
	go e.udpSender(e.udpStop, e.udpPort, 0)
	if e.udpPort2 != 0 {
		go e.udpSender(e.udpStop, e.udpPort2, 100)
	}
	time.Sleep(20 * time.Millisecond)
}

func c10Run(c c10Case) (v vVerdict) {
	if c.Nchan < 1 || c.Nchan > 6 || len(c.Ops) > 60 {
		return v
	}
	c10Counter++
	work := os.Getenv("VERIF_WORK")
	if work == "" {
		work = os.TempDir()
	}
	root := filepath.Join(work, fmt.Sprintf("c10_%d_%d", os.Getpid(), c10Counter))
	os.RemoveAll(root)
	os.MkdirAll(root, 0o755)
	defer os.RemoveAll(root)
	vDrainRecords()
	viper.Reset()
	e := &c10Env{c: &c, root: root, queued: make(chan func())}
	var inner DataSource
	badSep := false                         // lancero: the configuration in force has a column separation that makes channel numbers collide
	oddRefused, oddAccepted := false, false // unworkable unwrap options: refused by Configure / accepted
	reconfigure := func(nchan int) error { return nil }
	switch c.Source {
	case "scripted":
		e.scripted = newScripted(c.Nchan, 3*time.Millisecond, 100)
		inner, e.any = e.scripted, &e.scripted.AnySource
		reconfigure = func(n int) error { e.scripted.nchan = n; return nil }
	case "triangle":
		ts := NewTriangleSource()
		reconfigure = func(n int) error {
			return ts.Configure(&TriangleSourceConfig{Nchan: n, SampleRate: 50000, Min: 100, Max: 200})
		}
		inner, e.any = ts, &ts.AnySource
	case "simpulse":
		sp := NewSimPulseSource()
		reconfigure = func(n int) error {
			return sp.Configure(&SimPulseSourceConfig{Nchan: n, SampleRate: 50000, Pedestal: 1000, Amplitudes: []float64{3000}, Nsamp: 150})
		}
		inner, e.any = sp, &sp.AnySource
	case "erroring":
		es := NewErroringSource()
		inner, e.any = es, &es.AnySource
	case "abaco":
		as, err := NewAbacoSource()
		if err != nil {
			return vFailf("harness", "%v", err)
		}
		e.abaco = as
		reconfigure = func(n int) error {
			// what Configure does for a client: a fresh set of producers
			as.producers = []PacketProducer{&c10Endless{cc: c03Case{F: 8, NSample: 4, NProducers: 1, Seed: 5, Groups: []c03Group{{First: 0, Nchan: n, Base: 1}}}}}
			return nil
		}
		inner, e.any = as, &as.AnySource
	case "lancero":
		ls, err := NewLanceroSource()
		if err != nil {
			return vFailf("harness", "%v", err)
		}
		cg := filepath.Join(root, "cringeGlobals.json")
		oldPath := cringeGlobalsPath
		cringeGlobalsPath = cg
		defer func() { cringeGlobalsPath = oldPath }()
		badSep = c.FailBy == "chansep"
		reconfigure = func(n int) error {
			rows := 2 + n%3
			os.WriteFile(cg, []byte(fmt.Sprintf(`{"SETT":1,"seqln":%d,"lsync":20000,"testpattern":0,"propagationdelay":0,"NSAMP":4,"carddelay":0,"XPT":0}`, rows)), 0o644)
			cols, sep := 1, 0
			if c.FailBy == "chansep" {
				cols = 2
			}
			if badSep {
				sep = 1 // two columns whose channel numbers would collide: the start must fail (when the channels are numbered)
			}
			card := &vLiveCard{cols: cols, rows: rows, period: time.Duration(20000 * rows * 8), t0: vPipeT0}
			if c.FailBy == "stopcollector" {
				card.stopCollFaultAt = 2
			}
			if c.FailBy == "slowstop" {
				card.stopAdapterDelay = 40 * time.Millisecond // Stop may only return when the card has been switched off
			}
			ls.devices = map[int]*LanceroDevice{0: {devnum: 0, card: card}}
			ls.ncards = 1
			e.card = card
			err := ls.Configure(&LanceroSourceConfig{FiberMask: 0xffff, ActiveCards: []int{0}, CardDelay: []int{1}, FirstRow: 1, ChanSepColumns: sep})
			if err != nil && badSep { // refused already at configuration time: the client corrects it
				badSep = false
				return reconfigure(n)
			}
			return err
		}
		inner, e.any = ls, &ls.AnySource
	case "roach":
		rs, err := NewRoachSource()
		if err != nil {
			return vFailf("harness", "%v", err)
		}
		shard, _ := strconv.Atoi(os.Getenv("VERIF_SHARD"))
		reconfigure = func(n int) error {
			// Configure binds the port itself (closing the previous device first): probe only while nothing is bound
			if e.udpPort == 0 {
				for try := 0; try < 40 && e.udpPort == 0; try++ {
					cand := 25000 + (shard%64)*100 + (os.Getpid()*7+c10Counter*3+try)%100
					if l, err := net.ListenPacket("udp", fmt.Sprintf("127.0.0.1:%d", cand)); err == nil {
						l.Close()
						e.udpPort = cand
					}
				}
				if e.udpPort == 0 {
					return fmt.Errorf("harness: no free UDP port")
				}
			}
			return rs.Configure(&RoachSourceConfig{HostPort: []string{fmt.Sprintf("127.0.0.1:%d", e.udpPort)}, Rates: []float64{10000}})
		}
		defer rs.Delete()
		inner, e.any = rs, &rs.AnySource
	case "udp", "udp2":
		as, err := NewAbacoSource()
		if err != nil {
			return vFailf("harness", "%v", err)
		}
		e.abaco = as
		shard, _ := strconv.Atoi(os.Getenv("VERIF_SHARD"))
		for try := 0; try < 40 && e.udpPort == 0; try++ {
			cand := 12000 + (shard%64)*200 + ((os.Getpid()*7+c10Counter*3+try)%99)*2 // below the ephemeral range (32768+): a sender socket of another shard can never take the port between the probe and the bind
			if l, err := net.ListenPacket("udp", fmt.Sprintf("127.0.0.1:%d", cand)); err == nil {
				l.Close()
				e.udpPort = cand
			}
		}
		if e.udpPort == 0 {
			return vVerdict{Inconclusive: "no free UDP port"}
		}
		hosts := []string{fmt.Sprintf("127.0.0.1:%d", e.udpPort)}
		if c.Source == "udp2" {
			// a second receiver whose port is in use at the first start: one receiver samples while the other fails to bind
			e.udpPort2 = e.udpPort + 1
			bl, err := net.ListenPacket("udp", fmt.Sprintf("127.0.0.1:%d", e.udpPort2))
			if err != nil {
				return vVerdict{Inconclusive: "second UDP port not free"}
			}
			e.blocker = bl
			defer func() {
				if e.blocker != nil {
					e.blocker.Close()
				}
			}()
			hosts = append(hosts, fmt.Sprintf("127.0.0.1:%d", e.udpPort2))
		}
		reconfigure = func(n int) error {
			cfg := &AbacoSourceConfig{HostPortUDP: append([]string(nil), hosts...)}
			switch c.Unwrap {
			case 1:
				cfg.AbacoUnwrapOptions = AbacoUnwrapOptions{RescaleRaw: true, Unwrap: true, ResetAfter: 20000, PulseSign: 1}
			case 2:
				cfg.AbacoUnwrapOptions = AbacoUnwrapOptions{RescaleRaw: true, Unwrap: true, ResetAfter: 0, PulseSign: 1}
			case 3:
				cfg.AbacoUnwrapOptions = AbacoUnwrapOptions{RescaleRaw: false, Unwrap: true, ResetAfter: 20000, PulseSign: 1}
			}
			err := as.Configure(cfg)
			if err != nil && c.Unwrap >= 2 {
				// refused, as it may be: the client falls back to a configuration without unwrapping
				oddRefused = true
				return as.Configure(&AbacoSourceConfig{HostPortUDP: append([]string(nil), hosts...)})
			}
			if err == nil && c.Unwrap >= 2 {
				oddAccepted = true
			}
			return err
		}
		inner, e.any = as, &as.AnySource
	default:
		return v
	}
	if err := reconfigure(c.Nchan); err != nil {
		return vFailf("configure-rejected", "%v", err)
	}
	e.mon = &vMonitor{}
	var zeroBlock int64 // number (from 1) of the first block that was all zeros although the senders never send that
	if (c.Source == "udp" || c.Source == "udp2") && c.Unwrap == 0 {
		// the senders' sample i of packet n is n+i: apart from the very first sample of a run none is zero
		nblocks := int64(0)
		e.mon.blockHook = func(b *dataBlock) {
			nblocks++
			if b == nil || b.err != nil || len(b.segments) == 0 || atomic.LoadInt64(&zeroBlock) != 0 {
				return
			}
			n := 0
			for _, sg := range b.segments {
				for _, x := range sg.rawData {
					if x != 0 {
						return
					}
					n++
				}
			}
			if n >= 8 {
				atomic.StoreInt64(&zeroBlock, nblocks)
			}
		}
	}
	e.ds = &vMon{DataSource: inner, mon: e.mon}
	e.baseline = c10Census()
	running := false    // harness' knowledge: started and not yet stopped/ended
	writing := false
	pausedRuns := 0
	failNext := ""
	endEarly := false
	nchan := c.Nchan
	concurrentStops, postSelfStops, restarts, forced, garbage, failedStarts, sepFailed := 0, 0, 0, 0, 0, 0, 0
	defer func() {
		if e.udpStop != nil {
			close(e.udpStop)
		}
		if e.ds.GetState() == Active {
			c10Watch("cleanup Stop", func() { e.ds.Stop() }, "RunDoneWait")
		}
	}()

	waitBlock := func(what string) *vVerdict {
		if c.Source == "erroring" {
			return nil
		}
		if vMonQuiet {
			time.Sleep(70 * time.Millisecond)
			return nil
		}
		p0 := atomic.LoadInt64(&e.mon.processed)
		deadline := time.Now().Add(8 * time.Second)
		for time.Now().Before(deadline) {
			if atomic.LoadInt64(&e.mon.processed) > p0 {
				return nil
			}
			time.Sleep(time.Millisecond)
		}
		if vStarved(20 * time.Second) {
			return &vVerdict{Inconclusive: "no block within 8 s, but this process was not scheduled for most of a second meanwhile (overloaded machine)"}
		}
		f := vFailf("no-blocks|"+what, "%s: the source is active but no data block was processed within 8 s", what)
		return &f
	}
	doStart := func(i int) *vVerdict {
		st0 := e.ds.GetState()
		inject := failNext
		if e.scripted != nil {
			e.scripted.FailSample, e.scripted.FailRun = nil, nil
			switch inject {
			case "sample":
				e.scripted.FailSample = fmt.Errorf("injected: hardware not sending yet")
			case "run":
				e.scripted.FailRun = fmt.Errorf("injected: driver refused to start")
			}
		} else {
			inject = ""
		}
		failNext = ""
		if (c.Source == "abaco" || c.Source == "udp" || c.Source == "udp2" || c.Source == "roach") && st0 == Inactive {
			reconfigure(nchan) // a client configures, then starts (a finished run leaves no packet producers behind)
		}
		udpSilent := (c.Source == "udp" || c.Source == "udp2" || c.Source == "roach") && e.udpStop == nil
		var overlapStop chan struct{}
		if udpSilent && c.FailBy == "overlap" && st0 == Inactive && e.c.Nchan >= 2 {
			// the hardware already sends, but two groups claim the same channel number: sampling must refuse the layout
			overlapStop = make(chan struct{})
			go e.udpSender(overlapStop, e.udpPort, 0)
			go e.udpSender(overlapStop, e.udpPort, e.c.Nchan-1) // the senders' groups are e.c.Nchan wide: these two share one channel number
			time.Sleep(20 * time.Millisecond)
		}
		var err error
		if bad := c10Watch("Start", func() { err = Start(e.ds, e.queued, 10, 30) }, "Start"); bad != nil {
			return bad
		}
		if overlapStop != nil && err == nil {
			close(overlapStop)
			f := vFailf("overlap-accepted", "op %d: Start succeeded although two channel groups sharing a channel number were arriving", i)
			return &f
		}
		sepFail := badSep && st0 == Inactive
		expectFail := st0 != Inactive || inject != "" || udpSilent || sepFail
		if err == nil && expectFail && st0 != Inactive {
			f := vFailf("start-while-active", "op %d: Start succeeded although the source state was %d", i, st0)
			return &f
		}
		if err != nil && !expectFail && oddAccepted {
			// Configure accepted unwrap options that cannot work and Start refused cleanly: acceptable, nothing more to learn
			endEarly = true
			return nil
		}
		if err != nil && !expectFail {
			f := vFailf("start-failed", "op %d: Start of an inactive %s source (start number %d on this object) failed: %v", i, c.Source, e.started+1, err)
			return &f
		}
		if err != nil {
			if st0 == Inactive {
				if st := e.ds.GetState(); st != Inactive {
					f := vFailf("failed-start-not-inactive", "op %d: Start failed (%v) but the source state is %d", i, err, st)
					return &f
				}
				// the failed start must not leave goroutines or sockets of its own behind... (they would block the next start)
			}
			if overlapStop != nil {
				close(overlapStop)
				time.Sleep(10 * time.Millisecond)
			}
			if udpSilent {
				// from now on the hardware sends data; a client reconfigures and starts again
				e.startSenders()
				reconfigure(nchan)
			}
			if sepFail {
				badSep = false // the client corrects the separation
				if rerr := reconfigure(nchan); rerr != nil {
					f := vFailf("configure-rejected", "op %d: after the failed start the corrected configuration was rejected: %v", i, rerr)
					return &f
				}
				sepFailed++
			}
			return nil
		}
		if sepFail {
			f := vFailf("colliding-channels-started", "op %d: Start succeeded with two columns of %d rows and a column separation of 1", i, 2+nchan%3)
			return &f
		}
		if inject != "" || udpSilent {
			return nil
		}
		e.started++
		if e.started > 1 {
			restarts++
		}
		running = true
		if c.Source != "erroring" && !e.ds.Running() {
			f := vFailf("started-not-active", "op %d: Start succeeded but the source is not Active", i)
			return &f
		}
		if c.Source == "erroring" {
			deadline := time.Now().Add(5 * time.Second)
			for e.ds.GetState() != Inactive && time.Now().Before(deadline) {
				time.Sleep(time.Millisecond)
			}
			running = false
			return nil
		}
		if bad := waitBlock(fmt.Sprintf("after start number %d", e.started)); bad != nil {
			return bad
		}
		if c.Dwell > 0 && c.Dwell <= 2000 {
			time.Sleep(time.Duration(c.Dwell) * time.Millisecond)
		}
		// triggers on, so that records (and files) are produced
		all := make([]int, e.ds.Nchan())
		for k := range all {
			all[k] = k
		}
		auto := vTrigCfg{Auto: true, AutoDelayNs: 300000}
		e.queue(func() { e.ds.ChangeTriggerState(&FullTriggerState{ChannelIndices: all, TriggerState: auto.state()}) }, 5*time.Second)
		return nil
	}
	doStops := func(i, k int, stagger []int, when string) *vVerdict {
		if e.ds.GetState() == Starting {
			return nil // documented: no Stop while a Start call is executing
		}
		done := make(chan struct{}, k)
		if bad := c10Watch(fmt.Sprintf("Stop (%d concurrent)", k), func() {
			for j := 0; j < k; j++ {
				d := 0
				if j < len(stagger) {
					d = stagger[j]
				}
				go func(d int) {
					if d > 0 {
						time.Sleep(time.Duration(d) * time.Microsecond)
					}
					e.ds.Stop()
					done <- struct{}{}
				}(d)
			}
			for j := 0; j < k; j++ {
				<-done
			}
		}, "RunDoneWait", "Stop"); bad != nil {
			return bad
		}
		running, writing = false, false
		if k > 1 {
			concurrentStops++
		}
		return e.afterStop(fmt.Sprintf("op %d (%s)", i, when))
	}

	for i, op := range c.Ops {
		if endEarly {
			return v
		}
		switch op.Op {
		case "start":
			if bad := doStart(i); bad != nil {
				return *bad
			}
		case "stop":
			k := op.K
			if k < 1 {
				k = 1
			}
			if bad := doStops(i, k, op.Stagger, fmt.Sprintf("%d Stop calls", k)); bad != nil {
				return *bad
			}
		case "selfend":
			if e.scripted == nil || !running {
				continue
			}
			if op.N < 0 {
				// forced interleaving: the run's end is held back until Stop() announces (in its log line) that it found the
				// source Active, and is then let through right there, in the middle of Stop
				park := make(chan struct{})
				var once sync.Once
				e.mon.setPark(park)
				d0 := atomic.LoadInt32(&e.mon.deactivated)
				e.scripted.ctl <- op.Kind
				deadline := time.Now().Add(5 * time.Second)
				for atomic.LoadInt32(&e.mon.parked) == 0 && time.Now().Before(deadline) {
					time.Sleep(100 * time.Microsecond)
				}
				vSetLogHook(func(line string) {
					if strings.Contains(line, "was called to stop an active source") {
						once.Do(func() { close(park) })
						until := time.Now().Add(5 * time.Millisecond)
						for atomic.LoadInt32(&e.mon.deactivated) == d0 && time.Now().Before(until) {
							time.Sleep(50 * time.Microsecond)
						}
					}
				})
				k := op.K
				if k < 1 {
					k = 1
				}
				postSelfStops++
				bad := doStops(i, k, op.Stagger, "Stop entered while the source is ending itself ("+op.Kind+")")
				vSetLogHook(nil)
				once.Do(func() { close(park) })
				e.mon.setPark(nil)
				if bad != nil {
					return *bad
				}
				forced++
				continue
			}
			e.scripted.ctl <- op.Kind
			if op.N == 0 { // Stop only after the source is seen Inactive
				deadline := time.Now().Add(5 * time.Second)
				for e.ds.GetState() != Inactive && time.Now().Before(deadline) {
					time.Sleep(200 * time.Microsecond)
				}
				// the run is over and nobody has called Stop: what belongs to the run must be closed already (a Stop call
				// that finds the source Inactive has nothing to do)
				if e.ds.GetState() == Inactive && e.ds.WritingIsActive() {
					ws := e.ds.ComputeWritingState()
					return vFailf("writing-active-after-self-end", "op %d: the source ended itself (%s) and is Inactive, but writing is still reported active (paused=%v, %s)", i, op.Kind, ws.Paused, ws.FilenamePattern)
				}
			} else if op.N > 1 {
				time.Sleep(time.Duration(op.N) * 100 * time.Microsecond)
			}
			k := op.K
			if k < 1 {
				k = 1
			}
			postSelfStops++
			if bad := doStops(i, k, op.Stagger, "Stop after the source ended itself with "+op.Kind); bad != nil {
				return *bad
			}
		case "request":
			if !running {
				continue
			}
			if !e.queue(func() {}, 8*time.Second) {
				if e.ds.Running() {
					if vStarved(20 * time.Second) {
						return vVerdict{Inconclusive: "request not taken within 8 s, but this process was not scheduled for most of a second meanwhile (overloaded machine)"}
					}
					return vFailf("request-not-served", "op %d: a queued request was not taken by the core loop within 8 s although the source is active", i)
				}
			}
		case "wstart":
			if !running || writing {
				continue
			}
			var werr error
			wpath := root
			if op.Kind == "longpath" {
				// a START that fails in its last step (the run directory fits into PATH_MAX, the experiment-state file name does not):
				// whatever it leaves behind, Stop must still end with writing stopped, no goroutine and no open file left
				wpath = filepath.Join(root, "L")
				for len(wpath) < 4050-201 {
					wpath = filepath.Join(wpath, strings.Repeat("x", 200))
				}
				if pad := 4050 - len(wpath) - 1; pad > 0 {
					wpath = filepath.Join(wpath, strings.Repeat("y", pad))
				}
				failedStarts++
			}
			if e.queue(func() { werr = e.ds.WriteControl(&WriteControlConfig{Request: "START", WriteLJH22: true, WriteLJH3: op.N%2 == 1, Path: wpath}) }, 8*time.Second) && werr == nil {
				writing = true
			}
			if op.Kind == "longpath" {
				time.Sleep(3 * time.Millisecond) // let a record or two pass
			}
		case "wstop":
			if !running || !writing {
				continue
			}
			e.queue(func() { e.ds.WriteControl(&WriteControlConfig{Request: "STOP"}) }, 8*time.Second)
			writing = false
		case "wpause":
			if !running || !writing {
				continue
			}
			e.queue(func() { e.ds.WriteControl(&WriteControlConfig{Request: "PAUSE"}) }, 8*time.Second)
			pausedRuns++
		case "archive":
			if !running {
				continue
			}
			file, err := os.CreateTemp(root, "raw_*_inprogress.npz")
			if err != nil {
				continue
			}
			final := strings.Replace(file.Name(), "_inprogress", "", 1)
			n := op.N
			e.queue(func() {
				if err := e.any.ArchiveDataBlock(n, file, final); err != nil {
					file.Close()
				}
			}, 8*time.Second)
		case "wait":
			time.Sleep(time.Duration(1+op.N%10) * time.Millisecond)
		case "waitlong": // C17 workloads: long enough for the once-a-second status tickers to fire while the run goes on
			if op.N > 0 && op.N <= 2000 {
				time.Sleep(time.Duration(op.N) * time.Millisecond)
			}
		case "garbage":
			// a UDP port receives whatever arrives: a datagram that is not a data packet (port scan, wrong sender) must be
			// just noise - Stop still returns, the source still restarts (nothing else is asserted about it)
			if e.udpPort == 0 || !running {
				continue
			}
			port := e.udpPort
			if e.udpPort2 != 0 && op.N%2 == 1 {
				port = e.udpPort2
			}
			if conn, err := net.Dial("udp", fmt.Sprintf("127.0.0.1:%d", port)); err == nil {
				switch op.Kind {
				case "shorthdr": // right magic, impossible header length
					conn.Write([]byte{0x10, 3, 0, 0, 0x08, 0xff, 0x00, 0xee, 0, 0, 0, 1, 0, 0, 0, 9})
				case "tiny":
					conn.Write([]byte{1, 2, 3})
				case "othergroup": // a well-formed data packet of a channel group that did not exist when the source was sampled
					q := packets.NewPacket(10, 1, uint32(op.N), 500)
					q.NewData(make([]int16, 4*e.c.Nchan), []int16{int16(e.c.Nchan)})
					conn.Write(q.Bytes())
				case "empty":
					conn.Write([]byte{})
				case "hdronly": // the 16 fixed header bytes of a packet that announces 8 more header bytes, and nothing else
					conn.Write([]byte{0x10, 24, 0, 0, 0x81, 0x0b, 0x00, 0xff, 0, 0, 0, 1, 0, 0, 0, 9})
				default: // text, e.g. a scanner's probe
					conn.Write([]byte("GET / HTTP/1.0\r\n\r\n"))
				}
				conn.Close()
				garbage++
				time.Sleep(time.Duration(1+op.N%120) * time.Millisecond)
			}
		case "reconf":
			if e.ds.GetState() != Inactive || c.Source == "erroring" {
				continue
			}
			nchan = 1 + op.N%6
			if err := reconfigure(nchan); err != nil {
				return vFailf("configure-rejected", "op %d: reconfiguring the stopped source for %d channels: %v", i, nchan, err)
			}
		case "failnext":
			failNext = op.Kind
		}
	}
	if endEarly {
		return v
	}
	// epilogue: whatever happened, the same object can be configured, started and stopped once more
	if e.ds.GetState() == Active || running {
		if bad := doStops(len(c.Ops), 1, nil, "final Stop"); bad != nil {
			return *bad
		}
	}
	failNext = ""
	if c.Source == "abaco" || c.Source == "udp" || c.Source == "udp2" || c.Source == "roach" {
		reconfigure(nchan)
	}
	if (c.Source == "udp" || c.Source == "udp2" || c.Source == "roach") && e.udpStop == nil {
		e.startSenders()
	}
	if bad := doStart(len(c.Ops) + 1); bad != nil {
		return *bad
	}
	if bad := doStops(len(c.Ops)+2, 1, nil, "epilogue Stop"); bad != nil {
		return *bad
	}
	v.NonTrivial = e.started >= 2 && (concurrentStops > 0 || postSelfStops > 0)
	if concurrentStops > 0 {
		v.Classes = append(v.Classes, "concurrent-stops")
	}
	if postSelfStops > 0 {
		v.Classes = append(v.Classes, "stop-vs-self-termination")
	}
	if restarts > 0 {
		v.Classes = append(v.Classes, "restarted")
	}
	if forced > 0 {
		v.Classes = append(v.Classes, "forced-stop-vs-end-interleaving")
	}
	if garbage > 0 {
		v.Classes = append(v.Classes, "garbage-datagram")
	}
	if oddRefused {
		v.Classes = append(v.Classes, "unworkable-unwrap-options-refused")
	}
	if sepFailed > 0 {
		v.Classes = append(v.Classes, "start-failed-numbering-channels")
	}
	if failedStarts > 0 {
		v.Classes = append(v.Classes, "write-start-failing-late")
	}
	if zb := atomic.LoadInt64(&zeroBlock); zb != 0 {
		return vFailf("block-of-zeros", "block number %d of a run held only zeros on every channel; the senders' samples count up from the packet number and are never zero (but for the very first)", zb)
	}
	v.Classes = append(v.Classes, "source-"+c.Source)
	if pausedRuns > 0 {
		v.Classes = append(v.Classes, "writing-paused-when-the-run-ends")
	}
	if c.FailBy == "stopcollector" && restarts > 0 {
		v.Classes = append(v.Classes, "restart-after-driver-error-at-stop")
	}
	return v
}

func c10Gen(t *rapid.T) c10Case {
	c := c10Case{Source: rapid.SampledFrom([]string{"scripted", "scripted", "scripted", "scripted", "triangle", "simpulse", "erroring", "abaco", "udp", "udp", "udp2", "lancero", "lancero", "roach"}).Draw(t, "source"),
		Nchan: rapid.IntRange(1, 4).Draw(t, "nchan")}
	stops := func() c10Op {
		k := rapid.SampledFrom([]int{1, 1, 2, 3, 4}).Draw(t, "k")
		op := c10Op{Op: "stop", K: k}
		for j := 0; j < k; j++ {
			op.Stagger = append(op.Stagger, rapid.SampledFrom([]int{0, 0, 50, 500, 3000}).Draw(t, "stagger"))
		}
		return op
	}
	if c.Source == "udp" && rapid.Bool().Draw(t, "overlapfail") {
		c.FailBy = "overlap"
	}
	if c.Source == "lancero" && rapid.Bool().Draw(t, "chansep") {
		c.FailBy = "chansep"
	} else if c.Source == "lancero" && rapid.Bool().Draw(t, "stopcollector") {
		c.FailBy = "stopcollector" // the card's driver reports an error when the collector is stopped (once): the next start must still work
	} else if c.Source == "lancero" {
		c.FailBy = "slowstop" // the card takes 40 ms to stop its adapter: a start right after Stop has returned must still work
	}
	if c.Source == "udp" || c.Source == "udp2" {
		c.Unwrap = rapid.SampledFrom([]int{0, 0, 1, 2, 3}).Draw(t, "unwrapopts")
	}
	nrounds := rapid.IntRange(1, 3).Draw(t, "rounds")
	if c.Source == "abaco" || c.Source == "udp" || c.Source == "udp2" || c.Source == "lancero" || c.Source == "roach" {
		nrounds = rapid.IntRange(1, 2).Draw(t, "rounds2")
	}
	if (c.Source == "udp" || c.Source == "udp2") && c.FailBy == "" {
		nrounds = rapid.IntRange(2, 3).Draw(t, "udprounds") // several stops per case: each may arrive in the middle of a reader tick
	}
	if c.FailBy == "stopcollector" || c.FailBy == "slowstop" {
		nrounds = 2 // the same card is started again after the stop that met the driver error / took long
	}
	for r := 0; r < nrounds; r++ {
		if c.Source == "scripted" && rapid.IntRange(0, 3).Draw(t, "fail") == 0 {
			c.Ops = append(c.Ops, c10Op{Op: "failnext", Kind: rapid.SampledFrom([]string{"sample", "run"}).Draw(t, "failkind")}, c10Op{Op: "start"})
		}
		if rapid.IntRange(0, 3).Draw(t, "reconf") == 0 && !((c.FailBy == "stopcollector" || c.FailBy == "slowstop") && r > 0) {
			c.Ops = append(c.Ops, c10Op{Op: "reconf", N: rapid.IntRange(0, 5).Draw(t, "nch")})
		}
		c.Ops = append(c.Ops, c10Op{Op: "start"})
		if rapid.IntRange(0, 5).Draw(t, "doublestart") == 0 {
			c.Ops = append(c.Ops, c10Op{Op: "start"})
		}
		n := rapid.IntRange(0, 5).Draw(t, "nmid")
		for i := 0; i < n; i++ {
			switch rapid.IntRange(0, 7).Draw(t, "mid") {
			case 7:
				c.Ops = append(c.Ops, c10Op{Op: "wpause"})
			case 0:
				c.Ops = append(c.Ops, c10Op{Op: "request"})
			case 1, 2:
				wop := c10Op{Op: "wstart", N: rapid.IntRange(0, 1).Draw(t, "wtypes")}
				if rapid.IntRange(0, 4).Draw(t, "wlong") == 0 {
					wop.Kind = "longpath"
				}
				c.Ops = append(c.Ops, wop)
			case 3:
				c.Ops = append(c.Ops, c10Op{Op: "wstop"})
			case 4:
				c.Ops = append(c.Ops, c10Op{Op: "archive", N: rapid.SampledFrom([]int{50, 500, 1000000}).Draw(t, "archn")})
			default:
				c.Ops = append(c.Ops, c10Op{Op: "wait", N: rapid.IntRange(0, 9).Draw(t, "waitn")})
			}
			if (c.Source == "udp" || c.Source == "udp2") && rapid.IntRange(0, 3).Draw(t, "garbage") == 0 {
				c.Ops = append(c.Ops, c10Op{Op: "garbage", Kind: rapid.SampledFrom([]string{"text", "shorthdr", "tiny", "empty", "hdronly", "othergroup"}).Draw(t, "gkind"), N: rapid.IntRange(0, 400).Draw(t, "gn")})
			}
		}
		if c.Source == "scripted" && rapid.IntRange(0, 2).Draw(t, "selfend") == 0 {
			op := stops()
			op.Op = "selfend"
			op.Kind = rapid.SampledFrom([]string{"error", "close"}).Draw(t, "endkind")
			op.N = rapid.SampledFrom([]int{0, 1, 1, 2, 5, 20, -1, -1, -1}).Draw(t, "stopwhen") // 0: after seen inactive; 1: at once; n: n x 100 us later; -1: forced into the middle of Stop
			c.Ops = append(c.Ops, op)
		} else {
			c.Ops = append(c.Ops, stops())
		}
		if rapid.IntRange(0, 4).Draw(t, "stopagain") == 0 {
			c.Ops = append(c.Ops, stops())
		}
	}
	return c
}

func TestVerif_C10(t *testing.T) { vCheck(t, "C10", c10Gen, c10Run) }
