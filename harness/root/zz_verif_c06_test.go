//go:build verif

package dastard

// C06: write control - the reported writing state always matches what channels really do.
// A generated history of WriteControl requests (START with every subset of file types, STOP, PAUSE,
// UNPAUSE[ label], malformed and unusable ones), projector loads and data blocks is applied to a real
// AnySource whose channels auto-trigger.  Consistency oracle: the records of a block must end up in
// the files of exactly the types the *reported* state named at that moment, for every eligible
// channel, iff it said active and not paused; rejected requests change nothing; every START gets a
// fresh directory; STOP leaves no open descriptor in the run directory.

import (
	"fmt"
	"os"
	"path/filepath"
	"strings"
	"testing"
	"time"

	"github.com/spf13/viper"
	"gonum.org/v1/gonum/mat"
	"pgregory.net/rapid"
)

type c06Op struct {
	Kind    string `json:"kind"` // wc publish proj
	Request string `json:"request,omitempty"`
	LJH22   bool   `json:"ljh22,omitempty"`
	LJH3    bool   `json:"ljh3,omitempty"`
	OFF     bool   `json:"off,omitempty"`
	Path    int    `json:"path,omitempty"` // 0 base path, 1 explicit second directory, 2 unusable (parent is a regular file), 3 contains a per-cent sign, 4 so long that the run directory fits into PATH_MAX but the experiment-state file name does not
	Chan    int    `json:"chan,omitempty"` // proj
	Load    bool   `json:"load,omitempty"` // proj
	Nsamp   int    `json:"nsamp,omitempty"` // lengths: ConfigurePulseLengths through the RPC layer (refused while writing)
	Npre    int    `json:"npre,omitempty"`
}

type c06Case struct {
	Nchan int     `json:"nchan"`
	Npre  int     `json:"npre"`
	Nsamp int     `json:"nsamp"`
	Proj  []bool  `json:"proj"` // channels that start with projectors
	Ops   []c06Op `json:"ops"`
}

func c06Gen(t *rapid.T) c06Case {
	var c c06Case
	c.Nchan = rapid.IntRange(2, 4).Draw(t, "nchan")
	c.Nsamp = rapid.SampledFrom([]int{8, 10, 16}).Draw(t, "nsamp")
	c.Npre = rapid.IntRange(3, c.Nsamp-2).Draw(t, "npre")
	for i := 0; i < c.Nchan; i++ {
		c.Proj = append(c.Proj, rapid.IntRange(0, 2).Draw(t, "proj") != 0)
	}
	genOp := func() c06Op {
		switch k := rapid.IntRange(0, 20).Draw(t, "opkind"); {
		case k < 6:
			return c06Op{Kind: "publish"}
		case k < 10:
			m := rapid.IntRange(0, 7).Draw(t, "types")
			if m == 0 && rapid.Bool().Draw(t, "avoidempty") {
				m = rapid.IntRange(1, 7).Draw(t, "types2")
			}
			op := c06Op{Kind: "wc", Request: rapid.SampledFrom([]string{"START", "START", "start", "Start"}).Draw(t, "startspelling"),
				LJH22: m&1 != 0, LJH3: m&2 != 0, OFF: m&4 != 0}
			switch rapid.IntRange(0, 9).Draw(t, "pathkind") {
			case 0:
				op.Path = 2
			case 1, 2:
				op.Path = 1
			case 3:
				op.Path = rapid.SampledFrom([]int{3, 4}).Draw(t, "oddpath")
			}
			return op
		case k < 12:
			return c06Op{Kind: "wc", Request: rapid.SampledFrom([]string{"STOP", "stop", "STOP"}).Draw(t, "stop")}
		case k < 14:
			return c06Op{Kind: "wc", Request: rapid.SampledFrom([]string{"PAUSE", "pause", "PAUSE"}).Draw(t, "pause")}
		case k < 17:
			return c06Op{Kind: "wc", Request: rapid.SampledFrom([]string{"UNPAUSE", "unpause", "UNPAUSE stateA", "UNPAUSE B2", "UNPAUSE"}).Draw(t, "unpause")}
		case k < 18:
			return c06Op{Kind: "wc", Request: rapid.SampledFrom([]string{"UNPAUSEx", "UNPAUSE ", "unpause ", "RESUME", "", "PAUS", "UNPAUSElabel", "STAR"}).Draw(t, "bad")}
		case k < 19 && rapid.IntRange(0, 2).Draw(t, "rmrunq") == 0:
			return c06Op{Kind: "rmrun"}
		case k < 19:
			return c06Op{Kind: "proj", Chan: rapid.IntRange(0, c.Nchan-1).Draw(t, "pchan"), Load: rapid.Bool().Draw(t, "pload")}
		default:
			ns := rapid.SampledFrom([]int{8, 10, 16, c.Nsamp}).Draw(t, "newnsamp")
			return c06Op{Kind: "lengths", Nsamp: ns, Npre: rapid.IntRange(3, ns-2).Draw(t, "newnpre")}
		}
	}
	if rapid.IntRange(0, 9).Draw(t, "skeleton") < 6 {
		// a typical session: write, pause somewhere, stop, write again with other file types; noise in between
		start := func(label string) c06Op {
			m := rapid.IntRange(1, 7).Draw(t, label)
			return c06Op{Kind: "wc", Request: "START", LJH22: m&1 != 0, LJH3: m&2 != 0, OFF: m&4 != 0, Path: rapid.SampledFrom([]int{0, 0, 1}).Draw(t, label+"path")}
		}
		skel := []c06Op{start("typesA"), {Kind: "publish"}, {Kind: "wc", Request: "PAUSE"}, {Kind: "publish"}}
		if rapid.Bool().Draw(t, "unpauseBeforeStop") {
			skel = append(skel, c06Op{Kind: "wc", Request: "UNPAUSE"}, c06Op{Kind: "publish"})
		}
		skel = append(skel, c06Op{Kind: "wc", Request: "STOP"})
		if rapid.IntRange(0, 3).Draw(t, "pauseWhileIdle") == 0 {
			skel = append(skel, c06Op{Kind: "wc", Request: "PAUSE"})
		}
		skel = append(skel, start("typesB"), c06Op{Kind: "publish"}, c06Op{Kind: "publish"})
		for _, op := range skel {
			for rapid.IntRange(0, 4).Draw(t, "noise") == 0 {
				c.Ops = append(c.Ops, genOp())
			}
			c.Ops = append(c.Ops, op)
		}
		return c
	}
	if rapid.IntRange(0, 5).Draw(t, "skeleton2") == 0 {
		// the operator deletes an earlier run of the day between two sessions: the directory numbers have a hole
		start := func(label string) c06Op {
			m := rapid.IntRange(1, 3).Draw(t, label)
			return c06Op{Kind: "wc", Request: "START", LJH22: m&1 != 0, LJH3: m&2 != 0}
		}
		c.Ops = append(c.Ops, start("typesA"), c06Op{Kind: "publish"}, c06Op{Kind: "wc", Request: "STOP"},
			start("typesB"), c06Op{Kind: "publish"}, c06Op{Kind: "wc", Request: "STOP"})
		if rapid.Bool().Draw(t, "third") {
			c.Ops = append(c.Ops, start("typesC"), c06Op{Kind: "publish"}, c06Op{Kind: "wc", Request: "STOP"})
		}
		c.Ops = append(c.Ops, c06Op{Kind: "rmrun", Chan: rapid.IntRange(0, 1).Draw(t, "which")}, start("typesD"), c06Op{Kind: "publish"}, c06Op{Kind: "publish"})
		return c
	}
	n := rapid.IntRange(2, 16).Draw(t, "nops")
	for i := 0; i < n; i++ {
		c.Ops = append(c.Ops, genOp())
	}
	return c
}

type c06State struct {
	Active, Paused    bool
	Pattern           string
	LJH22, LJH3, OFF  bool
}

func c06Snapshot(ds *AnySource) c06State {
	ws := ds.ComputeWritingState()
	return c06State{ws.Active, ws.Paused, ws.FilenamePattern, ws.WriteLJH22, ws.WriteLJH3, ws.WriteOFF}
}

type c06Run struct {
	pattern  string
	dir      string
	eligible []bool                          // OFF eligibility per channel at START
	want     map[string][]*DataRecord        // key "<chan>/<ext>"
	stopped  bool
}

var c06Counter int

func c06Run1(c c06Case) (v vVerdict) {
	if c.Nchan < 1 || c.Nchan > 8 || len(c.Proj) != c.Nchan || c.Npre < 3 || c.Nsamp < c.Npre+1 || c.Nsamp > 64 {
		return v
	}
	c06Counter++
	work := os.Getenv("VERIF_WORK")
	if work == "" {
		work = os.TempDir()
	}
	root := filepath.Join(work, fmt.Sprintf("c06_%d_%d", os.Getpid(), c06Counter))
	os.RemoveAll(root)
	base, base2 := filepath.Join(root, "base"), filepath.Join(root, "second")
	os.MkdirAll(base, 0o755)
	blocker := filepath.Join(root, "afile")
	os.WriteFile(blocker, []byte("x"), 0o644)
	defer os.RemoveAll(root)

	vDrainRecords()
	holder := newScripted(c.Nchan, time.Millisecond, 48) // only its embedded AnySource is used; it makes the source a DataSource for the RPC layer
	ds := &holder.AnySource
	ds.name = "verif"
	ds.sampleRate = 1e6
	ds.samplePeriod = time.Microsecond
	ds.subframeDivisions = 4
	if err := ds.PrepareChannels(); err != nil {
		return vFailf("prepare", "%v", err)
	}
	ds.rowColCodes = make([]RowColCode, c.Nchan)
	viper.Reset()
	if err := ds.PrepareRun(c.Npre, c.Nsamp); err != nil {
		return vFailf("prepare", "%v", err)
	}
	defer func() {
		ds.numberWrittenTicker.Stop()
		ds.writingState.externalTriggerTicker.Stop()
		ds.writingState.dataDropTicker.Stop()
	}()
	ds.writingState.BasePath = base
	all := make([]int, c.Nchan)
	for i := range all {
		all[i] = i
	}
	nsamp := c.Nsamp
	auto := vTrigCfg{Auto: true, AutoDelayNs: int64(c.Nsamp) * 1000}
	// the RPC layer in front of the source, for the requests whose guard lives there
	sc := NewSourceControl()
	sc.clientUpdates = clientMessageChan
	sc.ActiveSource = holder
	sc.isSourceActive = true
	sc.status.Npresamp, sc.status.Nsamples = c.Npre, c.Nsamp
	ds.sourceState = Active
	hbStop := make(chan struct{})
	defer close(hbStop)
	go func() {
		for {
			select {
			case <-sc.heartbeats:
			case <-hbStop:
				return
			}
		}
	}()
	if err := ds.ChangeTriggerState(&FullTriggerState{ChannelIndices: all, TriggerState: auto.state()}); err != nil {
		return vFailf("prepare", "%v", err)
	}
	loadProj := func(ch int, load bool) {
		if load {
			P := mat.NewDense(2, nsamp, nil)
			B := mat.NewDense(nsamp, 2, nil)
			for i := 0; i < nsamp; i++ {
				P.Set(0, i, 1.0/float64(nsamp))
				P.Set(1, i, float64(i%3)-1)
				B.Set(i, 0, 1)
				B.Set(i, 1, float64(i%2))
			}
			ds.ConfigureProjectorsBases(ch, P, B, "verif model")
		} else {
			ds.processors[ch].removeProjectorsBasis()
		}
	}
	for ch, p := range c.Proj {
		if p {
			loadProj(ch, true)
		}
	}
	var runs []*c06Run
	var cur *c06Run
	usedDirs := map[string]bool{}
	pos := 0
	blockLen := 3 * 16 // three records of the longest length in use
	starts, pauses, startTypes := 0, 0, map[string]bool{}
	removedRuns := 0
	bigPublishes := 0
	publishesBetween := false
	pauseBeforeLastStart := false

	finish := func(r *c06Run, when string) *vVerdict {
		// decode the files of a finished (or still open, then flushed) run and compare with what the reported state promised
		for ch := 0; ch < c.Nchan; ch++ {
			name := ds.chanNames[ch]
			for _, ext := range []string{"ljh", "ljh3", "off"} {
				want := r.want[fmt.Sprintf("%d/%s", ch, ext)]
				fn := fmt.Sprintf(r.pattern, name, ext)
				b, err := os.ReadFile(fn)
				if err != nil {
					if len(want) == 0 {
						continue
					}
					f := vFailf("records-not-stored", "%s: the reported state promised %d record(s) of channel %d in %s, but %v", when, len(want), ch, filepath.Base(fn), err)
					return &f
				}
				var gotFrames []int64
				switch ext {
				case "ljh":
					f, err := vDecodeLJH22(b)
					if err != nil {
						fl := vFailf("file-malformed", "%s: %s: %v", when, filepath.Base(fn), err)
						return &fl
					}
					for i, r := range f.Records {
						gotFrames = append(gotFrames, r.Subframe/4)
						if i < len(want) {
							for k, s := range r.Samples {
								if RawType(s) != want[i].data[k] {
									fl := vFailf("stored-record-differs", "%s: %s record %d sample %d differs", when, filepath.Base(fn), i, k)
									return &fl
								}
							}
						}
					}
				case "ljh3":
					f, err := vDecodeLJH3(b)
					if err != nil {
						fl := vFailf("file-malformed", "%s: %s: %v", when, filepath.Base(fn), err)
						return &fl
					}
					for _, r := range f.Records {
						gotFrames = append(gotFrames, r.Frame)
					}
				default:
					f, err := vDecodeOFF(b)
					if err != nil {
						fl := vFailf("file-malformed", "%s: %s: %v", when, filepath.Base(fn), err)
						return &fl
					}
					for _, r := range f.Records {
						gotFrames = append(gotFrames, r.Frame)
					}
				}
				var wantFrames []int64
				for _, r := range want {
					wantFrames = append(wantFrames, int64(r.trigFrame))
				}
				if fmt.Sprint(gotFrames) != fmt.Sprint(wantFrames) {
					sig := "records-not-stored"
					if len(gotFrames) > len(wantFrames) {
						sig = "records-stored-unexpectedly"
					}
					f := vFailf(sig, "%s: %s holds records at frames %v; by the reported state (active, unpaused, type enabled, channel eligible) it should hold %v",
						when, filepath.Base(fn), gotFrames, wantFrames)
					return &f
				}
			}
		}
		return nil
	}
	openInDir := func(dir string) []string {
		var out []string
		ents, _ := os.ReadDir("/proc/self/fd")
		for _, e := range ents {
			if tgt, err := os.Readlink("/proc/self/fd/" + e.Name()); err == nil && strings.HasPrefix(tgt, dir) {
				out = append(out, tgt)
			}
		}
		return out
	}

	for i, op := range c.Ops {
		switch op.Kind {
		case "rmrun":
			// an earlier, finished run of the day is deleted by hand (never the latest one of its base directory)
			if c06Snapshot(ds).Active {
				continue
			}
			var cands []*c06Run
			for ri, r := range runs {
				if !r.stopped || !usedDirs[r.dir] {
					continue
				}
				later := false
				for _, r2 := range runs[ri+1:] {
					later = later || (filepath.Dir(r2.dir) == filepath.Dir(r.dir) && usedDirs[r2.dir])
				}
				if later {
					cands = append(cands, r)
				}
			}
			if len(cands) == 0 {
				continue
			}
			r := cands[op.Chan%len(cands)]
			if err := os.RemoveAll(r.dir); err != nil {
				return vVerdict{Inconclusive: "cannot remove a run directory: " + err.Error()}
			}
			delete(usedDirs, r.dir) // the name is free again
			removedRuns++
		case "lengths":
			if op.Nsamp < 5 || op.Nsamp > 16 || op.Npre < 3 || op.Npre > op.Nsamp-2 {
				continue
			}
			go func() { // the core loop's part: take the queued request, if any, and run it
				select {
				case f := <-sc.queuedRequests:
					f()
				case <-time.After(20 * time.Second):
				}
			}()
			var ok bool
			if err := sc.ConfigurePulseLengths(SizeObject{Nsamp: op.Nsamp, Npre: op.Npre}, &ok); err == nil {
				nsamp = op.Nsamp
			}
		case "proj":
			if c06Snapshot(ds).Active {
				continue // projectors are only changed while not writing
			}
			if op.Chan < 0 || op.Chan >= c.Nchan {
				continue
			}
			loadProj(op.Chan, op.Load)
		case "publish":
			st := c06Snapshot(ds)
			blockLen := blockLen
			if op.Nsamp >= 100 && op.Nsamp <= 800 {
				// a long block: so many records per channel at once (the writers' queues hold 1000 entries and are emptied
				// all the time by their own threads; the pause afterwards gives those threads time to do it)
				blockLen = op.Nsamp * nsamp
				bigPublishes++
			}
			block := &dataBlock{segments: make([]DataSegment, c.Nchan), nSamp: blockLen}
			for ch := 0; ch < c.Nchan; ch++ {
				raw := make([]RawType, blockLen)
				for k := range raw {
					raw[k] = RawType(1000*(ch+1) + (pos+k)%97)
				}
				block.segments[ch] = DataSegment{rawData: raw, framesPerSample: 1, firstFrameIndex: FrameIndex(pos), firstTime: vPipeT0.Add(time.Duration(pos) * time.Microsecond), framePeriod: time.Microsecond}
			}
			pos += blockLen
			if err := ds.ProcessSegments(block); err != nil {
				return vFailf("process-error", "op %d: %v", i, err)
			}
			recs := vDrainRecords()
			if st.Active && cur == nil {
				return vFailf("state-active-without-start", "op %d: reported state is active but no START has succeeded", i)
			}
			if st.Active && !st.Paused && cur != nil {
				for _, r := range recs {
					for _, x := range []struct {
						ext string
						on  bool
					}{{"ljh", st.LJH22}, {"ljh3", st.LJH3}, {"off", st.OFF && cur.eligible[r.channelIndex]}} {
						if x.on {
							k := fmt.Sprintf("%d/%s", r.channelIndex, x.ext)
							cur.want[k] = append(cur.want[k], r)
						}
					}
				}
				if len(recs) > 0 {
					publishesBetween = true
				}
			}
			if op.Nsamp >= 100 {
				time.Sleep(40 * time.Millisecond)
				if vStarved(2 * time.Second) {
					return vVerdict{Inconclusive: "this process was not scheduled for most of a second while the writers were to empty their queues (overloaded machine)"}
				}
			}
		case "wc":
			before := c06Snapshot(ds)
			cfg := &WriteControlConfig{Request: op.Request, WriteLJH22: op.LJH22, WriteLJH3: op.LJH3, WriteOFF: op.OFF}
			switch op.Path {
			case 1:
				cfg.Path = base2
			case 2:
				cfg.Path = filepath.Join(blocker, "sub")
			case 3:
				cfg.Path = filepath.Join(base2, "gain100%s")
			case 4:
				long := filepath.Join(base2, "L")
				for len(long) < 4050-201 {
					long = filepath.Join(long, strings.Repeat("x", 200))
				}
				if pad := 4050 - len(long) - 1; pad > 0 {
					long = filepath.Join(long, strings.Repeat("y", pad))
				}
				cfg.Path = long
			}
			preDirs := map[string]bool{}
			for _, b := range []string{base, base2} {
				filepath.WalkDir(b, func(p string, d os.DirEntry, err error) error {
					if err == nil && d.IsDir() {
						preDirs[p] = true
					}
					return nil
				})
			}
			basePathBefore := ds.ComputeWritingState().BasePath
			anyProj := false
			for ch := 0; ch < c.Nchan; ch++ {
				anyProj = anyProj || ds.processors[ch].HasProjectors()
			}
			err := ds.WriteControl(cfg)
			after := c06Snapshot(ds)
			up := strings.ToUpper(op.Request)
			if err != nil && strings.HasPrefix(up, "START") && !before.Active && op.Path <= 1 && (op.LJH22 || op.LJH3 || op.OFF) && (!op.OFF || anyProj) {
				// nothing is being written, the path is usable (explicit, or the remembered base path), a file type is named (OFF only with projectors loaded)
				return vFailf("valid-start-rejected", "op %d: WriteControl(%q types %v/%v/%v, path %q; remembered base path %q) while idle was rejected: %v",
					i, op.Request, op.LJH22, op.LJH3, op.OFF, cfg.Path, basePathBefore, err)
			}
			if err == nil && strings.HasPrefix(up, "START") {
				wantBase := basePathBefore
				if cfg.Path != "" {
					wantBase = cfg.Path
				}
				if got := ds.ComputeWritingState().BasePath; got != wantBase {
					return vFailf("basepath-misreported", "op %d: START with path %q (remembered base path %q) succeeded and writes to %s, but the reported base path is %q",
						i, cfg.Path, basePathBefore, after.Pattern, got)
				}
			}
			if err != nil {
				if after != before {
					return vFailf("rejected-request-changed-state", "op %d: WriteControl(%q types %v/%v/%v path %d) returned %v, yet the reported state changed from %+v to %+v",
						i, op.Request, op.LJH22, op.LJH3, op.OFF, op.Path, err, before, after)
				}
				continue
			}
			switch {
			case strings.HasPrefix(up, "START"):
				if !after.Active || after.Pattern == "" {
					return vFailf("start-not-reported", "op %d: START succeeded but the reported state is %+v", i, after)
				}
				dir := filepath.Dir(after.Pattern)
				if preDirs[dir] || usedDirs[dir] {
					return vFailf("start-directory-reused", "op %d: START writes into %s, which existed before", i, dir)
				}
				if st, err := os.Stat(dir); err != nil || !st.IsDir() {
					return vFailf("start-directory-missing", "op %d: START reports pattern %s but that directory does not exist", i, after.Pattern)
				}
				usedDirs[dir] = true
				cur = &c06Run{pattern: after.Pattern, dir: dir, want: map[string][]*DataRecord{}}
				for ch := 0; ch < c.Nchan; ch++ {
					cur.eligible = append(cur.eligible, ds.processors[ch].HasProjectors())
				}
				runs = append(runs, cur)
				starts++
				startTypes[fmt.Sprint(after.LJH22, after.LJH3, after.OFF)] = true
				pauseBeforeLastStart = pauses > 0
			case strings.HasPrefix(up, "STOP"):
				if after.Active {
					return vFailf("stop-not-reported", "op %d: STOP succeeded but the reported state is still active", i)
				}
				// every run not yet checked (normally one; more if a START was accepted while another run was in force)
				for _, r := range runs {
					if !r.stopped {
						r.stopped = true
						if f := finish(r, fmt.Sprintf("after STOP (op %d)", i)); f != nil {
							return *f
						}
					}
				}
				if open := openInDir(root); len(open) > 0 {
					return vFailf("files-open-after-stop", "op %d: after STOP these files are still open: %v", i, open)
				}
			case strings.HasPrefix(up, "PAUSE"):
				pauses++
			}
		}
	}
	// end of history: stop if necessary and check the last run
	if cur != nil && !cur.stopped {
		if err := ds.WriteControl(&WriteControlConfig{Request: "STOP"}); err != nil {
			return vFailf("final-stop-error", "final STOP: %v", err)
		}
		for _, r := range runs {
			if !r.stopped {
				r.stopped = true
				if f := finish(r, "after the final STOP"); f != nil {
					return *f
				}
			}
		}
		if open := openInDir(root); len(open) > 0 {
			return vFailf("files-open-after-stop", "after the final STOP these files are still open: %v", open)
		}
	}
	// no data file may exist outside the directories of the successful STARTs
	for _, b := range []string{base, base2} {
		var stray string
		filepath.WalkDir(b, func(p string, d os.DirEntry, err error) error {
			if err == nil && !d.IsDir() && !usedDirs[filepath.Dir(p)] {
				stray = p
			}
			return nil
		})
		if stray != "" {
			return vFailf("stray-file", "file %s was written outside every directory a successful START reported", stray)
		}
	}
	v.NonTrivial = starts >= 2 && len(startTypes) >= 2 && pauseBeforeLastStart && publishesBetween
	if starts >= 2 {
		v.Classes = append(v.Classes, "two-starts")
	}
	if bigPublishes > 0 {
		v.Classes = append(v.Classes, "hundreds-of-records-per-block")
	}
	if removedRuns > 0 {
		v.Classes = append(v.Classes, "earlier-run-directory-deleted")
	}
	if pauseBeforeLastStart {
		v.Classes = append(v.Classes, "pause-before-last-start")
	}
	if publishesBetween {
		v.Classes = append(v.Classes, "records-while-writing")
	}
	return v
}

func TestVerif_C06(t *testing.T) { vCheck(t, "C06", c06Gen, c06Run1) }
