//go:build verif

package dastard

// C11: control requests are serialised with data, answered exactly once, and never wedge or crash
// the server.  A generated history of requests (every queued request type, valid and invalid
// arguments, I/O faults) is issued, one at a time as one client does, against a real SourceControl
// whose source runs through the real Start/CoreLoop; timing classes: no source yet, running, after
// Stop, after the source ended itself (no refreshing call in between).

import (
	"sort"
	"encoding/base64"
	"fmt"
	"os"
	"path/filepath"
	"strings"
	"sync/atomic"
	"testing"
	"time"

	"github.com/spf13/viper"
	"gonum.org/v1/gonum/mat"
	"pgregory.net/rapid"
)

type c11Step struct {
	Op       string    `json:"op"`
	Chans    []int     `json:"chans,omitempty"`
	Trig     *vTrigCfg `json:"trig,omitempty"`
	Nsamp    int       `json:"nsamp,omitempty"`
	Npre     int       `json:"npre,omitempty"`
	Request  string    `json:"request,omitempty"`
	Types    int       `json:"types,omitempty"`
	Path     int       `json:"path,omitempty"` // 0 valid, 1 unusable, 2 so long that the run directory can be made but the experiment-state file cannot
	Text     string    `json:"text,omitempty"` // label / comment
	Flag     bool      `json:"flag,omitempty"` // couple on/off, group add/delete
	Src      int       `json:"src,omitempty"`
	Rx       []int     `json:"rx,omitempty"`
	N        int       `json:"n,omitempty"`    // raw-block samples, map pixels, projector variant
	Kind     string    `json:"kind,omitempty"` // projector blob kind, self-end kind, fault kind
	Fracs    []float64 `json:"fracs,omitempty"`
}

type c11Case struct {
	Source  string    `json:"source"` // scripted triangle simpulse erroring
	RealRPC bool      `json:"real_start"` // start through SourceControl.Start (no monitor wrapper)
	Nchan   int       `json:"nchan"`
	Npre    int       `json:"npre"`
	Nsamp   int       `json:"nsamp"`
	SlowUs  int       `json:"slow_us"`
	Steps   []c11Step `json:"steps"`
}

var c11Counter int

type c11Env struct {
	c        *c11Case
	sc       *SourceControl
	mon      *vMonitor
	scripted *vScripted
	root     string
	running  bool // the harness' knowledge: a source was started and neither stopped nor ended itself
	started  int
	nsamp    int
	npre     int
	classes  map[string]bool
	invalid  int
	special  int
	lastGT   string // the connections of the latest GROUPTRIGGER message clients got ("" none yet)
	haveGT   bool
}

// noteGT remembers the latest GROUPTRIGGER state among the messages.
func (e *c11Env) noteGT(msgs []ClientUpdate) {
	for _, u := range msgs {
		if u.tag == "GROUPTRIGGER" {
			if gs, ok := u.state.(*GroupTriggerState); ok {
				e.lastGT, e.haveGT = c11Conn(*gs), true
			} else if gs, ok := u.state.(GroupTriggerState); ok {
				e.lastGT, e.haveGT = c11Conn(gs), true
			}
		}
	}
}

// afterStartReport: once a (re)start has been announced, what clients were last told about the connections is what the new run uses.
func (e *c11Env) afterStartReport(i int) *vVerdict {
	if !e.running || !e.sc.ActiveSource.Running() {
		return nil
	}
	c11SettleClientMessages()
	e.noteGT(vTakeClientMessages())
	if !e.haveGT {
		return nil
	}
	if used := c11Conn(e.sc.ActiveSource.ComputeGroupTriggerState()); used != e.lastGT {
		f := vFailf("reported-coupling-stale", "step %d (start number %d): clients were last told the connections are %s, the run that has just started uses %s", i, e.started, e.lastGT, used)
		return &f
	}
	return nil
}

// c11AnySource finds the AnySource inside the source the RPC layer talks to (through the monitor wrapper, if any).
func c11AnySource(d DataSource) *AnySource {
	if w, ok := d.(*vMon); ok {
		d = w.DataSource
	}
	switch s := d.(type) {
	case *vScripted:
		return &s.AnySource
	case *TriangleSource:
		return &s.AnySource
	case *SimPulseSource:
		return &s.AnySource
	case *LanceroSource:
		return &s.AnySource
	case *ErroringSource:
		return &s.AnySource
	}
	return nil
}

// settings returns every channel's configured trigger settings and record lengths (not the running search positions), read in the
// core loop between two blocks like any queued request. "" when there is no running source to ask.
func (e *c11Env) settings() string {
	sc := e.sc
	if !e.running || !sc.isSourceActive {
		return ""
	}
	ds := c11AnySource(sc.ActiveSource)
	if ds == nil {
		return ""
	}
	out := make(chan string, 1)
	f := func() {
		var sb strings.Builder
		for i, dsp := range ds.processors {
			ts := dsp.TriggerState
			fmt.Fprintf(&sb, "ch%d: len %d/%d auto %v %v %v level %v %v %v edge %v %v %v %v emt %v mode %v thr %v mono %v %v/%v zero %v | ", i, dsp.NSamples, dsp.NPresamples,
				ts.AutoTrigger, ts.AutoDelay, ts.AutoVetoRange, ts.LevelTrigger, ts.LevelRising, ts.LevelLevel, ts.EdgeTrigger, ts.EdgeRising, ts.EdgeFalling, ts.EdgeLevel,
				ts.EdgeMulti, ts.EMTState.mode, ts.EMTState.threshold, ts.EMTState.nmonotone, ts.EMTState.nsamp, ts.EMTState.npre, ts.EMTState.enableZeroThreshold)
		}
		out <- sb.String()
	}
	select {
	case sc.queuedRequests <- f:
		select {
		case s := <-out:
			return s
		case <-time.After(5 * time.Second):
			return ""
		}
	case <-time.After(time.Second):
		return ""
	}
}

// call runs one request under a watchdog.  returned=false means it is provably blocked.
func (e *c11Env) call(name string, f func() error) (err error, verdict *vVerdict) {
	done := make(chan error, 1)
	var p0 int64
	if e.mon != nil {
		p0 = atomic.LoadInt64(&e.mon.processed)
	}
	go func() { done <- f() }()
	select {
	case err = <-done:
		return err, nil
	case <-time.After(10 * time.Second):
	}
	d1 := vGoroutineDump()
	select {
	case err = <-done:
		return err, nil
	case <-time.After(1500 * time.Millisecond):
	}
	d2 := vGoroutineDump()
	blocked := func(d string) bool {
		for _, g := range strings.Split(d, "\n\n") {
			if (strings.Contains(g, "runLaterIfActive") || strings.Contains(g, "ConfigureMixFraction")) && (strings.Contains(g, "[chan send") || strings.Contains(g, "[chan receive")) {
				return true
			}
			// waiting in runLaterIfActive's select although no source runs any more (nobody will ever take the request)
			if strings.Contains(g, "runLaterIfActive") && strings.Contains(g, "[select") && !e.sc.ActiveSource.Running() {
				return true
			}
		}
		return false
	}
	if e.mon != nil && e.running {
		if n := atomic.LoadInt64(&e.mon.processed) - p0; n >= 50 && strings.Contains(d2, "runLaterIfActive") {
			v := vFailf("request-starved|"+name, "%s was not served for 11.5 s although %d data blocks were processed meanwhile (requests must be taken between blocks)\n%s",
				name, n, vTrim(c11Relevant(d2), 2000))
			return nil, &v
		}
	}
	if blocked(d1) && blocked(d2) {
		v := vFailf("request-blocked|"+name, "%s did not return: after 10 s and again 1.5 s later its goroutine sits in the same channel operation of the request path (source running per harness: %v)\n%s",
			name, e.running, vTrim(c11Relevant(d2), 2500))
		return nil, &v
	}
	v := vVerdict{Inconclusive: name + " did not return within 11.5 s but is not provably blocked"}
	return nil, &v
}

func c11Relevant(dump string) string {
	var out []string
	for _, g := range strings.Split(dump, "\n\n") {
		if strings.Contains(g, "usnistgov/dastard.") && (strings.Contains(g, "runLaterIfActive") || strings.Contains(g, "CoreLoop") || strings.Contains(g, "queuedResults") || strings.Contains(g, "ConfigureMixFraction")) {
			out = append(out, g)
		}
	}
	return strings.Join(out, "\n\n")
}

// progress waits until another block has been processed (monitor cases) or records keep arriving.
func (e *c11Env) progress(after string) *vVerdict {
	if e.mon == nil || !e.running {
		return nil
	}
	if vMonQuiet {
		time.Sleep(3 * time.Millisecond)
		return nil
	}
	start := atomic.LoadInt64(&e.mon.processed)
	deadline := time.Now().Add(8 * time.Second)
	for time.Now().Before(deadline) {
		if atomic.LoadInt64(&e.mon.processed) > start {
			return nil
		}
		if !e.sc.ActiveSource.Running() {
			v := vFailf("source-stopped|"+after, "after %s the running source stopped by itself (no stop was requested)", after)
			return &v
		}
		time.Sleep(2 * time.Millisecond)
	}
	if vStarved(20 * time.Second) {
		return &vVerdict{Inconclusive: "no block for 8 s, but this process was not scheduled for most of a second meanwhile (overloaded machine)"}
	}
	v := vFailf("data-stalled|"+after, "after %s no data block was processed for 8 s although the source is running\n%s", after, vTrim(c11Relevant(vGoroutineDump()), 2500))
	return &v
}

func c11Blob(rows, cols int, kind string) string {
	m := mat.NewDense(maxInt(rows, 1), maxInt(cols, 1), nil)
	for i := 0; i < maxInt(rows, 1); i++ {
		for j := 0; j < maxInt(cols, 1); j++ {
			m.Set(i, j, float64(i+1)/float64(j+2))
		}
	}
	b, _ := m.MarshalBinary()
	switch kind {
	case "truncated":
		b = b[:len(b)*2/3]
	case "short":
		b = b[:7]
	case "empty":
		b = nil
	case "hugeheader":
		for i := 8; i < 24 && i < len(b); i++ {
			b[i] = 0x7f
		}
	case "garbage":
		for i := range b {
			b[i] = byte(i*37 + 11)
		}
	}
	s := base64.StdEncoding.EncodeToString(b)
	if kind == "badbase64" {
		s = "!!" + s
	}
	return s
}

func c11Run(c c11Case) (v vVerdict) {
	if c.Nchan < 1 || c.Nchan > 8 || (c.Source == "lancero" && (c.Nchan%2 != 0 || c.Nchan < 4)) || c.Npre < 3 || c.Nsamp <= c.Npre || c.Nsamp > 200 || len(c.Steps) > 80 {
		return v
	}
	c11Counter++
	work := os.Getenv("VERIF_WORK")
	if work == "" {
		work = os.TempDir()
	}
	root := filepath.Join(work, fmt.Sprintf("c11_%d_%d", os.Getpid(), c11Counter))
	os.RemoveAll(root)
	os.MkdirAll(filepath.Join(root, "data"), 0o755)
	os.WriteFile(filepath.Join(root, "afile"), []byte("x"), 0o644)
	defer os.RemoveAll(root)
	vDrainRecords()
	viper.Reset()

	sc := NewSourceControl()
	sc.clientUpdates = clientMessageChan
	ms := newMapServer()
	ms.clientUpdates = clientMessageChan
	sc.mapServer = ms
	sc.status.Npresamp, sc.status.Nsamples = c.Npre, c.Nsamp
	sc.ActiveSource = sc.triangle // as RunRPCServer leaves it
	hbStop := make(chan struct{})
	go func() { // RunRPCServer's heartbeat consumer
		for {
			select {
			case <-sc.heartbeats:
			case <-hbStop:
				return
			}
		}
	}()
	defer close(hbStop)
	e := &c11Env{c: &c, sc: sc, root: root, nsamp: c.Nsamp, npre: c.Npre, classes: map[string]bool{}}
	var okay bool
	tcfg := TriangleSourceConfig{Nchan: c.Nchan, SampleRate: 40000, Min: 100, Max: 200}
	sc.ConfigureTriangleSource(&tcfg, &okay)
	scfg := SimPulseSourceConfig{Nchan: c.Nchan, SampleRate: 40000, Pedestal: 1000, Amplitudes: []float64{5000}, Nsamp: 200}
	sc.ConfigureSimPulseSource(&scfg, &okay)

	stopSource := func() *vVerdict {
		if !sc.isSourceActive {
			return nil
		}
		_, bad := e.call("Stop", func() error { var r bool; d := ""; return sc.Stop(&d, &r) })
		e.running = false
		return bad
	}
	defer func() {
		if bad := stopSource(); bad != nil && !v.Fail {
			v = *bad
		}
	}()

	for i, st := range c.Steps {
		var err error
		var bad *vVerdict
		name := st.Op
		mustErr, mustOK := "", false
		queued := true // goes through runLaterIfActive
		couplingOp := st.Op == "group" || st.Op == "stopcoupling" || st.Op == "couple"
		connBefore := ""
		if couplingOp && e.running && sc.ActiveSource != nil && sc.ActiveSource.Running() {
			c11SettleClientMessages()
			vTakeClientMessages()
			connBefore = c11Conn(sc.ActiveSource.ComputeGroupTriggerState())
		}
		switch st.Op {
		case "start":
			if sc.isSourceActive && !e.running && !c.RealRPC {
				// the RPC layer still believes the ended source is active; a client would call Stop first
				if bad := stopSource(); bad != nil {
					return *bad
				}
				if sc.isSourceActive {
					return vFailf("stop-left-active", "step %d: the source ended itself, Stop was called and returned, yet the RPC layer still has an active source (every later Start is refused)", i)
				}
			}
			src := c.Source
			if c.RealRPC || src == "erroring" {
				nm := map[string]string{"triangle": "TRIANGLESOURCE", "simpulse": "SIMPULSESOURCE", "erroring": "ERRORINGSOURCE", "scripted": "TRIANGLESOURCE"}[src]
				was := sc.isSourceActive
				err, bad = e.call("Start", func() error { var r bool; return sc.Start(&nm, &r) })
				if bad != nil {
					return *bad
				}
				if was && err == nil {
					return vFailf("start-while-active", "step %d: Start succeeded although a source was already active", i)
				}
				if !was && err != nil {
					return vFailf("start-failed", "step %d: Start(%s) failed: %v", i, nm, err)
				}
				if err == nil {
					e.running = src != "erroring"
					e.started++
					if src == "erroring" { // ends itself at once
						deadline := time.Now().Add(5 * time.Second)
						for sc.erroring.Running() && time.Now().Before(deadline) {
							time.Sleep(time.Millisecond)
						}
						e.classes["self-ended"] = true
					}
					if f := e.afterStartReport(i); f != nil {
						return *f
					}
				}
				continue
			}
			if sc.isSourceActive {
				continue
			}
			var inner DataSource
			switch src {
			case "scripted":
				e.scripted = newScripted(c.Nchan, 4*time.Millisecond, 120)
				e.scripted.heartbeats = nil
				inner = e.scripted
			case "simpulse":
				inner = sc.simPulses
			case "lancero":
				// one in-memory card of 1 column x Nchan/2 rows; settings come from a cringe globals file as in production
				rows := c.Nchan / 2
				cg := filepath.Join(root, "cringeGlobals.json")
				os.WriteFile(cg, []byte(fmt.Sprintf(`{"SETT":1,"seqln":%d,"lsync":20000,"testpattern":0,"propagationdelay":0,"NSAMP":4,"carddelay":0,"XPT":0}`, rows)), 0o644)
				oldPath := cringeGlobalsPath
				cringeGlobalsPath = cg
				defer func() { cringeGlobalsPath = oldPath }()
				card := &vLiveCard{cols: 1, rows: rows, period: time.Duration(20000 * rows * 8), t0: vPipeT0}
				sc.lancero.devices = map[int]*LanceroDevice{0: {devnum: 0, card: card}}
				sc.lancero.ncards = 1
				var okc bool
				if err := sc.ConfigureLanceroSource(&LanceroSourceConfig{FiberMask: 0xffff, ActiveCards: []int{0}, CardDelay: []int{1}, FirstRow: 1}, &okc); err != nil {
					return vFailf("configure-rejected", "step %d: ConfigureLanceroSource: %v", i, err)
				}
				inner = sc.lancero
			default:
				inner = sc.triangle
			}
			e.mon = &vMonitor{slow: time.Duration(c.SlowUs) * time.Microsecond}
			w := &vMon{DataSource: inner, mon: e.mon}
			// what SourceControl.Start does, with the monitored source
			sc.ActiveSource = w
			sc.status.SourceName = "Monitored"
			sc.status.Running = true
			if err := Start(w, sc.queuedRequests, sc.status.Npresamp, sc.status.Nsamples); err != nil {
				sc.status.Running = false
				sc.isSourceActive = false
				return vFailf("start-failed", "step %d: Start of the %s source failed: %v", i, src, err)
			}
			sc.isSourceActive = true
			sc.status.SamplePeriod = w.SamplePeriod()
			sc.status.Nchannels = w.Nchan()
			sc.status.ChanGroups = w.ChanGroups()
			sc.broadcastStatus()
			sc.broadcastTriggerState()
			sc.broadcastGroupTriggerState()
			sc.broadcastChannelNames()
			e.running = true
			e.started++
			if f := e.afterStartReport(i); f != nil {
				return *f
			}
			continue
		case "stop":
			was := sc.isSourceActive
			err, bad = e.call("Stop", func() error { var r bool; d := ""; return sc.Stop(&d, &r) })
			if bad != nil {
				return *bad
			}
			if was && e.running && err != nil {
				return vFailf("stop-failed", "step %d: Stop of a running source returned %v", i, err)
			}
			e.running = false
			if sc.isSourceActive {
				return vFailf("stop-left-active", "step %d: after Stop returned the RPC layer still has an active source", i)
			}
			if was && err == nil {
				for _, src := range []struct {
					name string
					ds   DataSource
				}{{"triangle", sc.triangle}, {"simpulse", sc.simPulses}, {"erroring", sc.erroring}} {
					if src.ds != nil && src.ds.Running() {
						return vFailf("stop-left-source-running", "step %d: Stop returned success but the %s source is still running", i, src.name)
					}
				}
			}
			e.classes["stopped"] = true
			continue
		case "startother":
			// a client asks for another source while one runs: refused, and the running one stays the one that Stop stops
			if !c.RealRPC || !sc.isSourceActive || !e.running {
				continue
			}
			other := map[string]string{"triangle": "SIMPULSESOURCE", "simpulse": "TRIANGLESOURCE", "scripted": "SIMPULSESOURCE"}[c.Source]
			if other == "" {
				continue
			}
			err, bad = e.call("Start", func() error { var r bool; return sc.Start(&other, &r) })
			if bad != nil {
				return *bad
			}
			if err == nil {
				return vFailf("start-while-active", "step %d: Start(%s) succeeded although a source was already active", i, other)
			}
			e.classes["other-source-requested-while-running"] = true
			continue
		case "cfgrunning":
			// a client re-sends the configuration of the source that is running (with other values): it must be refused and
			// must not touch the running source
			if !sc.isSourceActive || !e.running {
				continue
			}
			var cerr error
			switch c.Source {
			case "triangle":
				cfg := &TriangleSourceConfig{Nchan: c.Nchan + 1, SampleRate: []float64{20000, 5000, 1}[st.N%3], Min: 100, Max: RawType(150 + 50*(st.N%4))}
				_, bad = e.call("ConfigureTriangleSource", func() error { var r bool; cerr = sc.ConfigureTriangleSource(cfg, &r); return cerr })
			case "simpulse":
				cfg := &SimPulseSourceConfig{Nchan: c.Nchan + 1, SampleRate: []float64{20000, 5000, 10}[st.N%3], Pedestal: 500, Amplitudes: []float64{1000, 2000}, Nsamp: 100 + 10*st.N}
				_, bad = e.call("ConfigureSimPulseSource", func() error { var r bool; cerr = sc.ConfigureSimPulseSource(cfg, &r); return cerr })
			default:
				continue
			}
			if bad != nil {
				return *bad
			}
			if cerr == nil {
				return vFailf("configure-accepted-while-running", "step %d: a Configure request for the running %s source was accepted", i, c.Source)
			}
			e.classes["configure-request-for-the-running-source"] = true
			continue
		case "selfend":
			if e.scripted == nil || !e.running || c.RealRPC {
				continue
			}
			if st.Flag && e.mon != nil && !vMonQuiet {
				// the source ends itself while a request has been waiting for the core loop for a while:
				// one block is made to take 60 ms, the request is issued during it, the source is told to end 25 ms later
				oldSlow := e.mon.slow
				e.mon.slow = 60 * time.Millisecond
				p0 := atomic.LoadInt64(&e.mon.processed)
				until := time.Now().Add(2 * time.Second)
				for (atomic.LoadInt32(&e.mon.inProcess) == 0 || atomic.LoadInt64(&e.mon.processed) == p0) && time.Now().Before(until) {
					time.Sleep(200 * time.Microsecond)
				}
				type res struct {
					err error
					bad *vVerdict
				}
				pending := make(chan res, 1)
				go func() {
					off := false
					err, bad := e.call("CoupleErrToFB", func() error { var r bool; return sc.CoupleErrToFB(&off, &r) })
					pending <- res{err, bad}
				}()
				time.Sleep(25 * time.Millisecond)
				e.scripted.ctl <- st.Kind
				r := <-pending
				e.mon.slow = oldSlow
				if r.bad != nil {
					return *r.bad
				}
				e.classes["self-ended-with-request-pending"] = true
			} else {
				e.scripted.ctl <- st.Kind
			}
			deadline := time.Now().Add(5 * time.Second)
			for sc.ActiveSource.Running() && time.Now().Before(deadline) {
				time.Sleep(time.Millisecond)
			}
			if sc.ActiveSource.Running() {
				return vVerdict{Inconclusive: "scripted source did not end within 5 s"}
			}
			e.running = false
			e.classes["self-ended"] = true
			continue
		case "wait":
			time.Sleep(time.Duration(1+st.N%8) * time.Millisecond)
			continue
		case "rmrundir":
			if ws := sc.ActiveSource.ComputeWritingState(); e.running && ws.Active && ws.FilenamePattern != "" {
				dir := filepath.Dir(ws.FilenamePattern)
				if st.Kind == "commentdir" {
					os.MkdirAll(filepath.Join(dir, "comment.txt"), 0o755)
				} else {
					os.RemoveAll(dir)
				}
				e.classes["io-fault"] = true
				e.special++
			}
			continue

		// ---- requests -------------------------------------------------------------------------------
		case "trig":
			fts := &FullTriggerState{ChannelIndices: append([]int(nil), st.Chans...)}
			if st.Trig != nil {
				fts.TriggerState = st.Trig.state()
			}
			nch := c.Nchan
			if len(st.Chans) == 0 {
				mustErr = "empty channel list"
			}
			for _, ch := range st.Chans {
				if ch < 0 || ch >= nch {
					mustErr = fmt.Sprintf("channel index %d of %d", ch, nch)
				}
			}
			if mustErr == "" && st.Trig != nil && !st.Trig.EMT {
				mustOK = true
			}
			before := e.settings()
			err, bad = e.call("ConfigureTriggers", func() error { var r bool; return sc.ConfigureTriggers(fts, &r) })
			if bad == nil && err != nil && before != "" {
				if after := e.settings(); after != "" && after != before {
					return vFailf("refused-request-changed-settings", "step %d: ConfigureTriggers(%v, %+v) was refused (%v), yet the channels' settings changed from\n%s\nto\n%s", i, st.Chans, fts.TriggerState, err, before, after)
				}
			}
		case "hostiletrig":
			// extreme but well-formed trigger settings: accepted or refused, never fatal (N selects the variant)
			ts := TriggerState{}
			switch st.N % 8 {
			case 0:
				ts.AutoTrigger, ts.AutoDelay = true, -time.Second
			case 1:
				ts.AutoTrigger, ts.AutoDelay = true, time.Duration(1<<63-1)
			case 2:
				ts.AutoTrigger, ts.AutoDelay, ts.AutoVetoRange = true, 0, 65535
			case 3:
				ts.EdgeTrigger, ts.EdgeRising, ts.EdgeFalling, ts.EdgeLevel = true, true, true, -1<<31
			case 4:
				ts.EdgeTrigger, ts.EdgeRising, ts.EdgeLevel = true, true, 1<<31-1
			case 5:
				ts.EdgeMulti, ts.EdgeMultiVerifyNMonotone, ts.EdgeMultiLevel = true, -5, -1<<31
			case 6:
				ts.EdgeMulti, ts.EdgeMultiVerifyNMonotone, ts.EdgeMultiMakeShortRecords = true, 1<<40, true
			default:
				ts.LevelTrigger, ts.LevelRising, ts.LevelLevel, ts.EdgeTrigger, ts.EdgeFalling, ts.EdgeLevel, ts.AutoTrigger = true, false, 65535, true, true, 0, true
			}
			chans := append([]int(nil), st.Chans...)
			if len(chans) == 0 {
				chans = []int{0}
			}
			fts := &FullTriggerState{ChannelIndices: chans, TriggerState: ts}
			err, bad = e.call("ConfigureTriggers", func() error { var r bool; return sc.ConfigureTriggers(fts, &r) })
			e.classes["hostile-trigger-values"] = true
			err = fmt.Errorf("not judged")
			if bad != nil {
				return *bad
			}
			if f := e.progress(name); f != nil {
				return *f
			}
			continue
		case "lengths":
			if st.Nsamp <= 0 || st.Npre <= 0 || st.Npre < 3 || st.Nsamp < st.Npre+1 {
				mustErr = fmt.Sprintf("lengths %d/%d", st.Nsamp, st.Npre)
			}
			same := sc.status.Npresamp == st.Npre && sc.status.Nsamples == st.Nsamp
			queued = !same
			before := e.settings()
			err, bad = e.call("ConfigurePulseLengths", func() error { var r bool; return sc.ConfigurePulseLengths(SizeObject{Nsamp: st.Nsamp, Npre: st.Npre}, &r) })
			if bad == nil && err != nil && before != "" {
				if after := e.settings(); after != "" && after != before {
					return vFailf("refused-request-changed-settings", "step %d: ConfigurePulseLengths(%d, %d) was refused (%v), yet the channels' settings changed from\n%s\nto\n%s", i, st.Nsamp, st.Npre, err, before, after)
				}
			}
			if err == nil && bad == nil && e.running && !same {
				e.nsamp, e.npre = st.Nsamp, st.Npre
			}
		case "proj":
			if e.nsamp > 100000 {
				continue // (after an accepted giant record length a projector matrix would not fit into memory)
			}
			nb := 2
			if st.Kind == "valid3" { // another number of bases than before: while OFF files are written, accepted or refused - never fatal
				nb = 3
			}
			pbo := &ProjectorsBasisObject{ChannelIndex: st.Src, ModelDescription: "verif"}
			prow, pcol, brow, bcol := nb, e.nsamp, e.nsamp, nb
			switch st.Kind {
			case "wrongshape":
				pcol, brow = e.nsamp+1, e.nsamp+1
				mustErr = "projector shape does not match the record length"
			case "mismatched":
				bcol = nb + 1
				mustErr = "projector and basis disagree on the number of bases"
			}
			pbo.ProjectorsBase64 = c11Blob(prow, pcol, "valid")
			pbo.BasisBase64 = c11Blob(brow, bcol, "valid")
			switch st.Kind {
			case "truncated", "short", "empty", "hugeheader", "garbage", "badbase64":
				if st.Flag {
					pbo.ProjectorsBase64 = c11Blob(prow, pcol, st.Kind)
				} else {
					pbo.BasisBase64 = c11Blob(brow, bcol, st.Kind)
				}
				mustErr = "malformed matrix (" + st.Kind + ")"
				queued = false
			}
			if st.Src < 0 || st.Src >= c.Nchan {
				if mustErr == "" {
					mustErr = fmt.Sprintf("channel index %d of %d", st.Src, c.Nchan)
				}
			}
			err, bad = e.call("ConfigureProjectorsBasis", func() error { var r bool; return sc.ConfigureProjectorsBasis(pbo, &r) })
		case "wc":
			cfg := &WriteControlConfig{Request: st.Request, WriteLJH22: st.Types&1 != 0, WriteLJH3: st.Types&2 != 0, WriteOFF: st.Types&4 != 0, Path: filepath.Join(root, "data")}
			up := strings.ToUpper(st.Request)
			if st.Path == 1 {
				cfg.Path = filepath.Join(root, "afile", "sub")
				if strings.HasPrefix(up, "START") {
					mustErr = "unusable path"
				}
			}
			if st.Path == 2 && c.Source != "lancero" && c.Source != "erroring" {
				// I/O failure in the last step of START: <path>/<date>/<nnnn> (14 more bytes) can be made and the data files
				// (.../<date>_run<nnnn>_chan<k>.ljh, +27) fit into PATH_MAX, <date>_run<nnnn>_experiment_state.txt (+38) does not
				long := filepath.Join(root, "L")
				for len(long) < 4050-201 {
					long = filepath.Join(long, strings.Repeat("x", 200))
				}
				if pad := 4050 - len(long) - 1; pad > 0 {
					long = filepath.Join(long, strings.Repeat("y", pad))
				}
				cfg.Path = long
				if strings.HasPrefix(up, "START") && e.running && !sc.ActiveSource.ComputeWritingState().Active && st.Types&7 != 0 && (st.Types&3 != 0) {
					mustErr = "experiment-state file cannot be created"
					e.classes["io-fault-statefile"] = true
					e.special++
				}
			}
			if st.Path == 3 {
				cfg.Path = filepath.Join(root, "gain100%s") // a per-cent sign in the path: accepted or refused, never fatal
				e.classes["percent-path"] = true
			}
			known := false
			for _, p := range []string{"START", "STOP", "PAUSE", "UNPAUSE"} {
				if strings.HasPrefix(up, p) {
					known = true
				}
			}
			if !known {
				mustErr = "unknown request " + st.Request
			}
			err, bad = e.call("WriteControl", func() error { var r bool; return sc.WriteControl(cfg, &r) })
		case "label":
			if st.Text == "" {
				mustErr = "empty label"
				queued = false
			} else if e.running && !sc.ActiveSource.ComputeWritingState().Active {
				mustErr = "label while not writing"
			}
			err, bad = e.call("SetExperimentStateLabel", func() error {
				var r bool
				return sc.SetExperimentStateLabel(&StateLabelConfig{Label: st.Text, WaitForError: true}, &r)
			})
		case "labelnowait":
			// The state-label request in its default mode: it returns at once and the label is applied a moment later (an error
			// would end the server by design, so it is only sent where it must succeed: a running source that is writing).
			// The same client's next request - ReadComment, which looks at the writing state itself - follows immediately.
			// Used by the race workloads (C17); nothing is judged here except that both calls return.
			if !e.running || st.Text == "" || !sc.isSourceActive || !sc.ActiveSource.ComputeWritingState().Active {
				continue
			}
			label := fmt.Sprintf("%s-%d", st.Text, i)
			if _, bad = e.call("SetExperimentStateLabel", func() error {
				var r bool
				return sc.SetExperimentStateLabel(&StateLabelConfig{Label: label, WaitForError: false}, &r)
			}); bad != nil {
				return *bad
			}
			zero := 0
			if _, bad = e.call("ReadComment", func() error { var r string; return sc.ReadComment(&zero, &r) }); bad != nil {
				return *bad
			}
			// the label has been applied when its announcement has passed the status channel: only then the next request
			deadline := time.Now().Add(5 * time.Second)
			for applied := false; !applied && time.Now().Before(deadline); {
				vClientMu.Lock()
				for k := len(vClientLog) - 1; k >= 0 && k >= len(vClientLog)-200; k-- {
					if vClientLog[k].tag == "STATELABEL" && vClientLog[k].state == label {
						applied = true
					}
				}
				vClientMu.Unlock()
				if !applied {
					time.Sleep(100 * time.Microsecond)
				}
			}
			e.classes["label-fire-and-forget"] = true
			continue
		case "comment":
			txt := st.Text
			if txt == "" {
				mustErr = "empty comment"
				queued = false
			}
			var ws *WritingState
			if e.running {
				ws = sc.ActiveSource.ComputeWritingState()
				if ws.Active {
					dir := filepath.Dir(ws.FilenamePattern)
					if st, serr := os.Stat(dir); serr != nil || !st.IsDir() {
						mustErr = "run directory is gone"
					} else if st2, serr := os.Stat(filepath.Join(dir, "comment.txt")); serr == nil && st2.IsDir() {
						mustErr = "comment.txt is a directory"
					}
				}
			}
			err, bad = e.call("WriteComment", func() error { var r bool; return sc.WriteComment(&txt, &r) })
			if bad == nil && err == nil && ws != nil && ws.Active && mustErr == "" {
				b, rerr := os.ReadFile(filepath.Join(filepath.Dir(ws.FilenamePattern), "comment.txt"))
				want := txt
				if !strings.HasSuffix(want, "\n") {
					want += "\n"
				}
				if rerr != nil || string(b) != want {
					return vFailf("comment-not-written", "step %d: WriteComment(%q) succeeded but comment.txt holds %q (%v)", i, txt, string(b), rerr)
				}
			}
		case "readcomment":
			queued = false
			zero := st.N
			_, bad = e.call("ReadComment", func() error { var r string; return sc.ReadComment(&zero, &r) })
			err = fmt.Errorf("not judged")
			if !sc.isSourceActive {
				mustErr = ""
			}
		case "couple":
			on := st.Flag
			if on && c.Source != "lancero" {
				mustErr = "error/feedback coupling on a source without such pairs"
			} else {
				mustOK = true
			}
			if st.Kind == "fb" {
				err, bad = e.call("CoupleFBToErr", func() error { var r bool; return sc.CoupleFBToErr(&on, &r) })
			} else {
				err, bad = e.call("CoupleErrToFB", func() error { var r bool; return sc.CoupleErrToFB(&on, &r) })
			}
		case "group":
			gts := GroupTriggerState{Connections: map[int][]int{st.Src: append([]int(nil), st.Rx...)}}
			if st.Kind == "nil" {
				gts.Connections = nil
				mustOK = true
			} else {
				// adding a connection with an index outside the channels must be refused (a channel to itself is
				// documented as silently ignored, deleting what cannot exist as harmless: neither is judged)
				inRange := true
				for _, rx := range st.Rx {
					oob := rx < 0 || rx >= c.Nchan || st.Src < 0 || st.Src >= c.Nchan
					if oob {
						inRange = false
					}
					if st.Flag && rx != st.Src && oob {
						mustErr = fmt.Sprintf("connection %d -> %d with %d channels", st.Src, rx, c.Nchan)
					}
				}
				if inRange {
					mustOK = true
				}
			}
			if st.Kind == "slowclient" && e.running {
				// the status publisher is busy and its queue is full when the request is served: the report has to wait, not vanish
				atomic.StoreInt32(&vClientHold, 1)
				for full, k := 0, 0; full < 3 && k < 200; k++ {
					select {
					case clientMessageChan <- ClientUpdate{"VERIFFILL", k}:
					default:
						full++
						time.Sleep(300 * time.Microsecond)
					}
				}
				go func() {
					time.Sleep(30 * time.Millisecond)
					atomic.StoreInt32(&vClientHold, 0)
				}()
				e.classes["status-queue-full"] = true
			}
			if st.Flag {
				err, bad = e.call("AddGroupTriggerCoupling", func() error { var r bool; return sc.AddGroupTriggerCoupling(gts, &r) })
			} else {
				err, bad = e.call("DeleteGroupTriggerCoupling", func() error { var r bool; return sc.DeleteGroupTriggerCoupling(&gts, &r) })
			}
		case "stopcoupling":
			mustOK = true
			err, bad = e.call("StopTriggerCoupling", func() error { var r, d bool; return sc.StopTriggerCoupling(&d, &r) })
		case "rawblock":
			if st.N < 0 {
				mustErr = fmt.Sprintf("negative sample count %d", st.N)
			}
			var fn string
			err, bad = e.call("StoreRawDataBlock", func() error { return sc.StoreRawDataBlock(st.N, &fn) })
			if fn != "" {
				defer os.Remove(fn)
				defer os.Remove(strings.Replace(fn, ".npz", "_inprogress.npz", 1))
			}
		case "mix":
			queued = false
			if c.Source != "lancero" || c.RealRPC {
				mustErr = "mix on a source without mix"
			} else if e.running {
				if len(st.Chans) != len(st.Fracs) {
					mustErr = "channel and fraction lists of different lengths"
				}
				for _, ch := range st.Chans {
					if ch < 0 || ch >= c.Nchan || ch%2 == 0 {
						mustErr = fmt.Sprintf("mix for channel index %d (only feedback channels, odd and < %d)", ch, c.Nchan)
					}
				}
				if mustErr == "" {
					mustOK = true
				}
			} else {
				mustErr = "mix request while no source is running" // must be answered with an error, not wait for a block assembler that is gone
			}
			mfo := &MixFractionObject{ChannelIndices: append([]int(nil), st.Chans...), MixFractions: append([]float64(nil), st.Fracs...)}
			err, bad = e.call("ConfigureMixFraction", func() error { var r bool; return sc.ConfigureMixFraction(mfo, &r) })
		case "mapload":
			queued = false
			fn := filepath.Join(root, fmt.Sprintf("map%d.cfg", i))
			var sb strings.Builder
			sb.WriteString("spacing: 250\n")
			for k := 1; k <= st.N; k++ {
				fmt.Fprintf(&sb, "%d %d %d pix%d\n", k, 10*k, 20*k, k)
			}
			os.WriteFile(fn, []byte(sb.String()), 0o644)
			if st.Kind == "missing" {
				fn += ".nope"
				mustErr = "map file does not exist"
			}
			mapBefore := fmt.Sprintf("%+v", ms.Map)
			if ms.Map != nil {
				mapBefore = fmt.Sprintf("%+v", *ms.Map)
			}
			var lerr error
			_, bad = e.call("MapServer.Load", func() error { var r bool; lerr = ms.Load(&fn, &r); return lerr })
			err = lerr
			if bad == nil && lerr != nil {
				// a refused request leaves the map that is installed (and that every later START takes its pixels from) as it was
				mapAfter := fmt.Sprintf("%+v", ms.Map)
				if ms.Map != nil {
					mapAfter = fmt.Sprintf("%+v", *ms.Map)
				}
				if mapAfter != mapBefore {
					return vFailf("refused-request-changed-settings", "step %d: MapServer.Load(%s) was refused (%v), yet the installed map changed from %s to %s", i, filepath.Base(fn), lerr, vTrim(mapBefore, 200), vTrim(mapAfter, 200))
				}
			}
			if mustErr == "" {
				err = nil
			}
			if bad == nil && mustErr != "" && err == nil {
				return vFailf("invalid-accepted|mapload", "step %d: loading a missing map file succeeded", i)
			}
			continue
		case "mapunload":
			z := 0
			_, bad = e.call("MapServer.Unload", func() error { var r bool; return ms.Unload(&z, &r) })
			if bad != nil {
				return *bad
			}
			continue
		case "sendall":
			queued = false
			_, bad = e.call("SendAllStatus", func() error { var r bool; d := ""; return sc.SendAllStatus(&d, &r) })
			if bad != nil {
				return *bad
			}
			continue
		default:
			continue
		}
		if bad != nil {
			return *bad
		}
		if couplingOp && connBefore != "" && e.running && sc.ActiveSource.Running() {
			// C09, last clause, at its observation point: the GROUPTRIGGER state sent to the clients is the set in use
			c11SettleClientMessages()
			used := c11Conn(sc.ActiveSource.ComputeGroupTriggerState())
			reported, coupling := "", -1
			msgs := vTakeClientMessages()
			e.noteGT(msgs)
			for _, u := range msgs {
				if u.tag == "GROUPTRIGGER" {
					if gs, ok := u.state.(*GroupTriggerState); ok {
						reported = c11Conn(*gs)
					} else if gs, ok := u.state.(GroupTriggerState); ok {
						reported = c11Conn(gs)
					}
				}
				if u.tag == "TRIGCOUPLING" {
					if cs, ok := u.state.(CouplingStatus); ok {
						coupling = int(cs)
					}
				}
			}
			e.classes["coupling-report-checked"] = true
			if reported != "" && reported != used {
				return vFailf("reported-coupling-stale", "step %d (%s): the GROUPTRIGGER state sent to clients is %s, the connections in use are %s", i, name, reported, used)
			}
			if reported == "" && used != connBefore {
				return vFailf("coupling-change-not-reported", "step %d (%s, returned %v): the connections in use changed from %s to %s but no GROUPTRIGGER state was sent to clients", i, name, err, connBefore, used)
			}
			if st.Op == "couple" && err != nil && coupling > int(NoCoupling) {
				return vFailf("rejected-coupling-reported", "step %d (%s): the request was rejected (%v), connections in use %s, yet clients were told TRIGCOUPLING=%d", i, name, err, used, coupling)
			}
		}
		if st.Op == "readcomment" {
			continue
		}
		if mustErr != "" {
			e.invalid++
		}
		if queued && !e.running {
			if err == nil {
				return vFailf("accepted-without-source|"+name, "step %d: %s returned success although no source is running (source state per harness: started %d times, running=false)", i, name, e.started)
			}
			continue
		}
		if mustErr != "" && err == nil {
			return vFailf("invalid-accepted|"+name, "step %d: %s with %s returned success", i, name, mustErr)
		}
		if mustOK && e.running && err != nil {
			return vFailf("valid-rejected|"+name, "step %d: valid %s request was rejected: %v", i, name, err)
		}
		if ov := func() string {
			if e.mon != nil {
				return e.mon.Overlap()
			}
			return ""
		}(); ov != "" {
			return vFailf("not-serialised", "step %d (%s): %s", i, name, ov)
		}
		if f := e.progress(name); f != nil {
			return *f
		}
	}
	if e.mon != nil {
		if ov := e.mon.Overlap(); ov != "" {
			return vFailf("not-serialised", "%s", ov)
		}
	}
	v.NonTrivial = e.invalid >= 1 && (e.classes["self-ended"] || e.classes["io-fault"])
	for k := range e.classes {
		v.Classes = append(v.Classes, k)
	}
	if e.invalid > 0 {
		v.Classes = append(v.Classes, "invalid-argument")
	}
	v.Classes = append(v.Classes, "source-"+c.Source)
	return v
}

func c11GenStep(t *rapid.T, c *c11Case) c11Step {
	idx := func(label string) int {
		return rapid.SampledFrom([]int{0, 0, c.Nchan - 1, c.Nchan - 1, c.Nchan, -1, 1000, -1 << 31, 1}).Draw(t, label)
	}
	switch k := rapid.IntRange(0, 24).Draw(t, "req"); {
	case k < 4:
		tr := vGenTrig(t, c.Npre, c.Nsamp, 25000, true)
		st := c11Step{Op: "trig", Trig: &tr}
		n := rapid.IntRange(0, 3).Draw(t, "nidx")
		for i := 0; i < n; i++ {
			st.Chans = append(st.Chans, idx("chidx"))
		}
		return st
	case k < 5:
		st := c11Step{Op: "hostiletrig", N: rapid.IntRange(0, 7).Draw(t, "hostile")}
		if rapid.Bool().Draw(t, "hostileall") {
			for i := 0; i < c.Nchan; i++ {
				st.Chans = append(st.Chans, i)
			}
		}
		return st
	case k < 6:
		return c11Step{Op: "lengths", Nsamp: rapid.SampledFrom([]int{c.Nsamp, 20, 64, 0, -5, 4, 3, 150, 1 << 30, 1<<31 + 7, 1 << 62}).Draw(t, "ns"), Npre: rapid.SampledFrom([]int{c.Npre, 3, 10, 0, -1, 2, 63, 200, 1 << 62, 1<<63 - 1}).Draw(t, "np")}
	case k < 8:
		return c11Step{Op: "proj", Src: idx("pchan"), Flag: rapid.Bool().Draw(t, "which"),
			Kind: rapid.SampledFrom([]string{"valid", "valid", "valid3", "valid3", "wrongshape", "mismatched", "truncated", "short", "empty", "hugeheader", "garbage", "badbase64"}).Draw(t, "pkind")}
	case k < 12:
		return c11Step{Op: "wc", Request: rapid.SampledFrom([]string{"START", "START", "Stop", "PAUSE", "UNPAUSE", "UNPAUSE lbl", "UNPAUSEx", "", "FOO"}).Draw(t, "wcreq"),
			Types: rapid.IntRange(0, 7).Draw(t, "types"), Path: rapid.SampledFrom([]int{0, 0, 0, 1, 2, 3}).Draw(t, "path")}
	case k < 13:
		return c11Step{Op: "label", Text: rapid.SampledFrom([]string{"A", "state B", "", "x,y"}).Draw(t, "label")}
	case k < 15:
		return c11Step{Op: "comment", Text: rapid.SampledFrom([]string{"hello", "two\nlines\n", "", "ünï"}).Draw(t, "comment")}
	case k < 16:
		return c11Step{Op: "readcomment", N: rapid.SampledFrom([]int{0, 0, 1}).Draw(t, "zero")}
	case k < 17:
		return c11Step{Op: "couple", Flag: rapid.Bool().Draw(t, "on"), Kind: rapid.SampledFrom([]string{"err", "fb"}).Draw(t, "dir")}
	case k < 19:
		st := c11Step{Op: "group", Flag: rapid.Bool().Draw(t, "add"), Src: idx("gsrc"), Kind: rapid.SampledFrom([]string{"", "", "", "nil"}).Draw(t, "gkind")}
		n := rapid.IntRange(0, 3).Draw(t, "nrx")
		for i := 0; i < n; i++ {
			st.Rx = append(st.Rx, idx("grx"))
		}
		return st
	case k < 20:
		return c11Step{Op: "stopcoupling"}
	case k < 21:
		return c11Step{Op: "rawblock", N: rapid.SampledFrom([]int{1, 100, 500, 100000, 0, -1, -1000000, 1 << 62, 1<<63 - 1, 1 << 40}).Draw(t, "rawn")}
	case k < 22:
		st := c11Step{Op: "mix"}
		n := rapid.IntRange(0, 3).Draw(t, "nmix")
		for q := 0; q < n; q++ {
			st.Chans = append(st.Chans, rapid.SampledFrom([]int{1, 3, 1, c.Nchan - 1, 0, 2, c.Nchan, -1, 999}).Draw(t, "mixch"))
		}
		nf := n
		if rapid.IntRange(0, 4).Draw(t, "mixmismatch") == 0 {
			nf = rapid.IntRange(0, 4).Draw(t, "nfrac")
		}
		for q := 0; q < nf; q++ {
			st.Fracs = append(st.Fracs, rapid.SampledFrom([]float64{0, 0.5, -1, 100}).Draw(t, "mixfrac"))
		}
		return st
	case k < 23:
		return c11Step{Op: "mapload", N: rapid.SampledFrom([]int{c.Nchan, c.Nchan, c.Nchan - 1, c.Nchan + 1, 0, 3}).Draw(t, "npix"), Kind: rapid.SampledFrom([]string{"", "", "", "missing"}).Draw(t, "mapkind")}
	case k < 24:
		return c11Step{Op: rapid.SampledFrom([]string{"mapunload", "sendall", "wait", "startother", "cfgrunning", "cfgrunning"}).Draw(t, "misc"), N: rapid.IntRange(0, 7).Draw(t, "waitn")}
	default:
		// the fault hits a request handler only (comment.txt cannot be created); removing the whole run directory would
		// also break the lazily created data files, whose failure stops the server by design
		return c11Step{Op: "rmrundir", Kind: "commentdir"}
	}
}

func c11Gen(t *rapid.T) c11Case {
	c := c11Case{Source: rapid.SampledFrom([]string{"scripted", "scripted", "scripted", "triangle", "simpulse", "erroring", "lancero"}).Draw(t, "source"),
		Nchan: rapid.IntRange(1, 4).Draw(t, "nchan"), SlowUs: rapid.SampledFrom([]int{0, 200, 1500, 6000}).Draw(t, "slow")}
	c.Nsamp = rapid.SampledFrom([]int{20, 32, 50}).Draw(t, "nsamp")
	c.Npre = rapid.IntRange(4, c.Nsamp-4).Draw(t, "npre")
	c.RealRPC = c.Source != "scripted" && c.Source != "lancero" && rapid.Bool().Draw(t, "realstart")
	if c.Source == "lancero" {
		c.Nchan = rapid.SampledFrom([]int{4, 6}).Draw(t, "lnchan")
		c.SlowUs = rapid.SampledFrom([]int{0, 1500}).Draw(t, "lslow")
	}
	some := func(label string, lo, hi int) {
		n := rapid.IntRange(lo, hi).Draw(t, label)
		for i := 0; i < n; i++ {
			c.Steps = append(c.Steps, c11GenStep(t, &c))
		}
	}
	some("before", 0, 3)
	c.Steps = append(c.Steps, c11Step{Op: "start"})
	if c.Source != "erroring" && rapid.IntRange(0, 7).Draw(t, "offsession") == 0 {
		// a session writing OFF files: projectors on a channel, records flowing, then another projector request for that channel
		ch := rapid.IntRange(0, c.Nchan-1).Draw(t, "offchan")
		auto := vTrigCfg{Auto: true, AutoDelayNs: 2000000}
		c.Steps = append(c.Steps, c11Step{Op: "proj", Src: ch, Kind: "valid"}, c11Step{Op: "trig", Chans: []int{ch}, Trig: &auto},
			c11Step{Op: "wc", Request: "START", Types: rapid.SampledFrom([]int{4, 5, 7}).Draw(t, "offtypes")}, c11Step{Op: "wait", N: 7},
			c11Step{Op: "proj", Src: ch, Kind: rapid.SampledFrom([]string{"valid3", "valid3", "valid"}).Draw(t, "reproj")}, c11Step{Op: "wait", N: 7}, c11Step{Op: "wait", N: 7})
	} else if rapid.IntRange(0, 2).Draw(t, "writing") != 0 {
		c.Steps = append(c.Steps, c11Step{Op: "wc", Request: "START", Types: 1})
	}
	if c.RealRPC && rapid.IntRange(0, 2).Draw(t, "startother") == 0 {
		c.Steps = append(c.Steps, c11Step{Op: "startother"})
	}
	if c.Nchan >= 2 && c.Source != "erroring" && c.Source != "lancero" {
		post := c.Nsamp - c.Npre
		switch rapid.IntRange(0, 9).Draw(t, "mixedchannels") {
		case 0:
			// two edge-multi channels of different tolerance, then record lengths that only the first of them can work with:
			// the request must be refused as a whole
			if post >= 6 {
				lax := vTrigCfg{EMT: true, EMTMode: 0, EMTLevel: 100, EMTNMono: 1, EMTNoZero: true}
				strict := vTrigCfg{EMT: true, EMTMode: 0, EMTLevel: 100, EMTNMono: post, EMTNoZero: true}
				c.Steps = append(c.Steps, c11Step{Op: "trig", Chans: []int{0}, Trig: &lax}, c11Step{Op: "trig", Chans: []int{1}, Trig: &strict},
					c11Step{Op: "lengths", Nsamp: c.Npre + rapid.IntRange(2, post-1).Draw(t, "shortpost"), Npre: c.Npre})
			}
		case 1:
			// projectors on the second channel, then variable-length edge-multi records for both channels in one request: a
			// channel with projectors cannot have them, so nothing may change
			vl := vTrigCfg{EMT: true, EMTMode: 1, EMTLevel: 100, EMTNMono: 1, EMTNoZero: true}
			c.Steps = append(c.Steps, c11Step{Op: "proj", Src: 1, Kind: "valid"}, c11Step{Op: "trig", Chans: []int{0, 1}, Trig: &vl})
		}
	}
	some("running", 2, 14)
	switch rapid.IntRange(0, 3).Draw(t, "ending") {
	case 0:
		c.Steps = append(c.Steps, c11Step{Op: "stop"})
	case 1, 2:
		c.Steps = append(c.Steps, c11Step{Op: "selfend", Kind: rapid.SampledFrom([]string{"error", "close"}).Draw(t, "endkind"), Flag: rapid.IntRange(0, 2).Draw(t, "pendingreq") == 0})
		if rapid.IntRange(0, 2).Draw(t, "stopafterend") == 0 {
			c.Steps = append(c.Steps, c11Step{Op: "stop"})
		}
	}
	some("after", 1, 4)
	if rapid.Bool().Draw(t, "restart") {
		c.Steps = append(c.Steps, c11Step{Op: "start"})
		some("again", 1, 6)
	}
	return c
}

func TestVerif_C11(t *testing.T) { vCheck(t, "C11", c11Gen, c11Run) }


// c11SettleClientMessages waits until the harness' consumer has logged everything sent on the client-update channel so
// far: a marker is sent through the same (FIFO) channel and awaited in the log.
var c11SyncN int

func c11SettleClientMessages() {
	c11SyncN++
	id := c11SyncN
	clientMessageChan <- ClientUpdate{"VERIFSYNC", id}
	deadline := time.Now().Add(5 * time.Second)
	for time.Now().Before(deadline) {
		vClientMu.Lock()
		found := false
		for k := len(vClientLog) - 1; k >= 0 && !found; k-- {
			if vClientLog[k].tag == "VERIFSYNC" {
				found = vClientLog[k].state.(int) >= id
				break
			}
		}
		vClientMu.Unlock()
		if found {
			return
		}
		time.Sleep(50 * time.Microsecond)
	}
}

// c11Conn renders a connection state canonically ("-" for no connection).
func c11Conn(gs GroupTriggerState) string {
	var pairs []string
	for src, rxs := range gs.Connections {
		for _, rx := range rxs {
			pairs = append(pairs, fmt.Sprintf("%04d>%04d", src, rx))
		}
	}
	if len(pairs) == 0 {
		return "-"
	}
	sort.Strings(pairs)
	return strings.Join(pairs, " ")
}

// C09R: the same request machinery, histories made of coupling requests: what the RPC layer reports vs. what is in use.
func c09rGen(t *rapid.T) c11Case {
	c := c11Case{Source: rapid.SampledFrom([]string{"scripted", "lancero", "lancero", "triangle"}).Draw(t, "source"),
		Nchan: rapid.IntRange(2, 4).Draw(t, "nchan"), Nsamp: 32, Npre: 8}
	if c.Source == "lancero" {
		c.Nchan = rapid.SampledFrom([]int{4, 6}).Draw(t, "lnchan")
	}
	c.Steps = append(c.Steps, c11Step{Op: "start"})
	n := rapid.IntRange(2, 12).Draw(t, "nops")
	idx := func(label string) int {
		return rapid.SampledFrom([]int{0, 1, 1, 2, 3, c.Nchan - 1, c.Nchan, -1, 99}).Draw(t, label)
	}
	for i := 0; i < n; i++ {
		switch k := rapid.IntRange(0, 9).Draw(t, "kind"); {
		case k < 6:
			st := c11Step{Op: "group", Src: idx("src"), Flag: rapid.IntRange(0, 3).Draw(t, "add") != 0}
			for q, nrx := 0, rapid.IntRange(1, 3).Draw(t, "nrx"); q < nrx; q++ {
				st.Rx = append(st.Rx, idx("rx"))
			}
			if rapid.IntRange(0, 4).Draw(t, "slowclient") == 0 {
				st.Kind = "slowclient"
			}
			c.Steps = append(c.Steps, st)
		case k < 8:
			c.Steps = append(c.Steps, c11Step{Op: "couple", Kind: rapid.SampledFrom([]string{"fb", "err"}).Draw(t, "ckind"), Flag: rapid.IntRange(0, 2).Draw(t, "on") != 0})
		case k < 9:
			c.Steps = append(c.Steps, c11Step{Op: "stopcoupling"})
		default:
			c.Steps = append(c.Steps, c11Step{Op: "wait", N: rapid.IntRange(0, 7).Draw(t, "w")})
		}
	}
	c.Steps = append(c.Steps, c11Step{Op: "stop"})
	if rapid.Bool().Draw(t, "restart") {
		// the next run begins without connections, and clients must have been told so
		c.Steps = append(c.Steps, c11Step{Op: "start"}, c11Step{Op: "group", Src: 0, Rx: []int{1}, Flag: true}, c11Step{Op: "stop"})
	}
	return c
}

func TestVerif_C09R(t *testing.T) { vCheck(t, "C09R", c09rGen, c11Run) }
