//go:build verif

package dastard

// C12 (second harness): the unwrapping as the Abaco data path applies it. A multi-channel AbacoGroup built by the real
// NewAbacoGroup receives packets and the real demuxData is called for generated numbers of frames; every channel's
// output must equal a single unwrapper (public constructor, the harness' own inversion rule) run over that channel's
// whole raw sequence in one call. GOMAXPROCS is part of the case: demuxData spreads the channels over goroutines.

import (
	"bytes"
	"fmt"
	"runtime"
	"testing"
	"time"

	"github.com/usnistgov/dastard/packets"
	"pgregory.net/rapid"
)

type c12dCase struct {
	Procs      int   `json:"procs"`
	First      int   `json:"first"`
	Nchan      int   `json:"nchan"`
	F          int   `json:"frames_per_packet"`
	NPackets   int   `json:"npackets"`
	Calls      []int `json:"calls"` // packets consumed by successive demuxData calls (cyclic)
	Rescale    bool  `json:"rescale"`
	Unwrap     bool  `json:"unwrap"`
	Bias       bool  `json:"bias"`
	PulseSign  int   `json:"pulsesign"`
	ResetAfter int   `json:"resetafter"`
	Invert     []int `json:"invert"`
	Seed       int   `json:"seed"`
	Kind       int   `json:"kind"` // signal shape
	// ViaSource: 0 the group is built by NewAbacoGroup; 1 by a real AbacoSource (Configure with the options, then the sampling step
	// of Start on a scripted packet producer); 2 the same, and while the sampling step runs another ConfigureAbacoSource request with
	// other options arrives - it is refused (the source is not Inactive) and must change nothing
	ViaSource int `json:"via_source,omitempty"`
	// ViaRPC (with ViaSource): the options are sent with the ConfigureAbacoSource request of a real SourceControl, after an earlier
	// accepted request with other options
	ViaRPC bool `json:"via_rpc,omitempty"`
	// TwoGroups (with ViaSource): a second channel group above this one is seen first while sampling, and channels of both
	// groups are inverted
	TwoGroups bool `json:"two_groups,omitempty"`
}

// c12dProducer is a PacketProducer whose sampling step waits until the harness lets it go on.
type c12dProducer struct {
	sample  []*packets.Packet
	entered chan struct{}
	release chan struct{}
}

func (f *c12dProducer) ReadAllPackets() ([]*packets.Packet, error) { return nil, nil }
func (f *c12dProducer) samplePackets(d time.Duration) ([]*packets.Packet, error) {
	close(f.entered)
	<-f.release
	return f.sample, nil
}
func (f *c12dProducer) start() error        { return nil }
func (f *c12dProducer) discardStale() error { return nil }
func (f *c12dProducer) stop() error         { return nil }

func c12dGen(t *rapid.T) c12dCase {
	c := c12dCase{
		Procs:      rapid.SampledFrom([]int{1, 2, 3, 4, 5, 6, 8, 12, 16}).Draw(t, "procs"),
		First:      rapid.SampledFrom([]int{0, 0, 1, 4, 100}).Draw(t, "first"),
		F:          rapid.IntRange(1, 6).Draw(t, "F"),
		NPackets:   rapid.IntRange(1, 12).Draw(t, "npackets"),
		Rescale:    rapid.IntRange(0, 5).Draw(t, "rescale") != 0,
		Bias:       rapid.Bool().Draw(t, "bias"),
		PulseSign:  rapid.SampledFrom([]int{1, -1, 1, -1, 0}).Draw(t, "pulsesign"),
		ResetAfter: rapid.SampledFrom([]int{1, 2, 3, 8, 20, 1000, 20000}).Draw(t, "resetafter"),
		Seed:       rapid.IntRange(0, 1<<20).Draw(t, "seed"),
		Kind:       rapid.IntRange(0, 3).Draw(t, "kind"),
	}
	switch rapid.IntRange(0, 3).Draw(t, "nchanclass") {
	case 0:
		c.Nchan = rapid.IntRange(1, 4).Draw(t, "nchan")
	case 1:
		c.Nchan = c.Procs + rapid.IntRange(-1, 3).Draw(t, "nchand")
	default:
		c.Nchan = rapid.IntRange(1, 40).Draw(t, "nchan")
	}
	if c.Nchan < 1 {
		c.Nchan = 1
	}
	if c.Rescale {
		c.Unwrap = rapid.IntRange(0, 5).Draw(t, "unwrap") != 0
	}
	ninv := rapid.IntRange(0, 5).Draw(t, "ninv")
	for i := 0; i < ninv; i++ {
		switch rapid.IntRange(0, 3).Draw(t, "invclass") {
		case 0:
			c.Invert = append(c.Invert, c.First) // the group's first channel
		case 1:
			c.Invert = append(c.Invert, c.First+c.Nchan-1) // its last
		case 2:
			c.Invert = append(c.Invert, c.First+rapid.IntRange(0, c.Nchan-1).Draw(t, "inv"))
		default:
			c.Invert = append(c.Invert, rapid.IntRange(0, 150).Draw(t, "invany")) // possibly outside the group
		}
	}
	c.ViaSource = rapid.SampledFrom([]int{0, 0, 1, 2, 2}).Draw(t, "viasource")
	if c.ViaSource > 0 {
		c.ViaRPC = rapid.Bool().Draw(t, "viarpc")
		c.TwoGroups = rapid.Bool().Draw(t, "twogroups")
		if c.TwoGroups {
			c.Invert = append([]int{c.First}, c.Invert...) // the lower group's first channel is inverted, and one of the upper group (added by the runner)
		}
		if c.ViaRPC && rapid.IntRange(0, 3).Draw(t, "alloff") == 0 {
			// every option at its zero value: raw data, nothing dropped, unwrapped or inverted
			c.Rescale, c.Unwrap, c.Bias, c.ResetAfter, c.PulseSign, c.Invert, c.TwoGroups = false, false, false, 0, 0, nil, false
		}
	}
	ncalls := rapid.IntRange(1, 4).Draw(t, "ncalls")
	for i := 0; i < ncalls; i++ {
		c.Calls = append(c.Calls, rapid.IntRange(1, 4).Draw(t, "call"))
	}
	return c
}

// c12dRaw is channel ch's raw sample number i.
func (c c12dCase) c12dRaw(ch, i int) int16 {
	h := uint32(c.Seed)*2654435761 + uint32(ch)*40503
	start := int(h >> 16)
	var step int
	switch c.Kind {
	case 0: // slow ramps, direction and speed per channel: wraps to remove
		step = int(h%8192) - 4096
	case 1: // near half a quantum per sample
		step = 32768 + int(h%81) - 40
	case 2: // constant with jitter
		step = 0
	default:
		step = int(h % 65536)
	}
	j := int((uint32(i)*2246822519 + h) >> 27) // 0..31 jitter
	return int16(uint16(start + i*step + j))
}

func c12dRun(c c12dCase) (v vVerdict) {
	if c.Nchan < 1 || c.F < 1 || c.NPackets < 1 || len(c.Calls) == 0 || c.Procs < 1 {
		return v
	}
	old := runtime.GOMAXPROCS(c.Procs)
	defer runtime.GOMAXPROCS(old)
	opt := AbacoUnwrapOptions{RescaleRaw: c.Rescale, Unwrap: c.Unwrap, Bias: c.Bias, ResetAfter: c.ResetAfter, PulseSign: c.PulseSign,
		InvertChan: append([]int(nil), c.Invert...)}
	g := NewAbacoGroup(GroupIndex{Firstchan: c.First, Nchan: c.Nchan}, opt)
	viaSource := false
	if c.ViaSource > 0 && !(c.Unwrap && c.ResetAfter <= 0) {
		as, err := NewAbacoSource()
		if err != nil {
			return vFailf("harness", "NewAbacoSource: %v", err)
		}
		upperFirst, upperN := c.First+c.Nchan, 3
		accepted := AbacoSourceConfig{AbacoUnwrapOptions: opt}
		accepted.InvertChan = append([]int(nil), c.Invert...)
		if c.TwoGroups {
			accepted.InvertChan = append(accepted.InvertChan, upperFirst+1)
		}
		if c.ViaRPC {
			sc := NewSourceControl()
			sc.clientUpdates = clientMessageChan
			as = sc.abaco
			prior := AbacoSourceConfig{AbacoUnwrapOptions: AbacoUnwrapOptions{RescaleRaw: true, Unwrap: true, Bias: !c.Bias, ResetAfter: c.ResetAfter + 7, PulseSign: 1, InvertChan: []int{c.First + c.Nchan - 1}}}
			var ok bool
			if err := sc.ConfigureAbacoSource(&prior, &ok); err != nil {
				return vFailf("configure-rejected", "ConfigureAbacoSource with options %+v: %v", prior.AbacoUnwrapOptions, err)
			}
			if err := sc.ConfigureAbacoSource(&accepted, &ok); err != nil {
				return vFailf("configure-rejected", "ConfigureAbacoSource with options %+v after an earlier request: %v", opt, err)
			}
		} else if err := as.Configure(&accepted); err != nil {
			return vFailf("configure-rejected", "Configure with options %+v on a new AbacoSource: %v", opt, err)
		}
		mkg := func(seq uint32, counter uint64, first, n int) *packets.Packet {
			p := packets.NewPacket(10, 7, seq, first)
			p.NewData(make([]int16, c.F*n), []int16{int16(n)})
			p.SetTimestamp(packets.MakeTimestamp(uint16(counter>>32), uint32(counter), 1e9))
			return p
		}
		mk := func(seq uint32, counter uint64) *packets.Packet { return mkg(seq, counter, c.First, c.Nchan) }
		sample := []*packets.Packet{mk(1, 1000000), mk(2, 1000000+uint64(c.F)*1000)}
		if c.TwoGroups { // the upper group's packets come first
			sample = []*packets.Packet{mkg(1, 1000000, upperFirst, upperN), mk(1, 1000000), mkg(2, 1000000+uint64(c.F)*1000, upperFirst, upperN), mk(2, 1000000+uint64(c.F)*1000)}
		}
		fake := &c12dProducer{sample: sample, entered: make(chan struct{}), release: make(chan struct{})}
		as.producers = []PacketProducer{fake}
		if err := as.SetStateStarting(); err != nil {
			return vFailf("harness", "SetStateStarting: %v", err)
		}
		sampled := make(chan error, 1)
		go func() { sampled <- as.Sample() }()
		select {
		case <-fake.entered:
		case <-time.After(10 * time.Second):
			return vVerdict{Inconclusive: "the sampling step did not begin within 10 s"}
		}
		if c.ViaSource == 2 {
			other := AbacoSourceConfig{AbacoUnwrapOptions: AbacoUnwrapOptions{RescaleRaw: !c.Rescale, Unwrap: !c.Rescale, Bias: !c.Bias, ResetAfter: c.ResetAfter + 7, PulseSign: -c.PulseSign}}
			if c.PulseSign == 0 {
				other.PulseSign = 1
			}
			if len(c.Invert) == 0 {
				other.InvertChan = []int{c.First}
			}
			if err := as.Configure(&other); err == nil {
				close(fake.release)
				<-sampled
				as.SetStateInactive()
				return vFailf("configure-accepted-while-starting", "a Configure request was accepted while the source was being sampled by a Start")
			}
		}
		close(fake.release)
		var serr error
		select {
		case serr = <-sampled:
		case <-time.After(10 * time.Second):
			return vVerdict{Inconclusive: "the sampling step did not end within 10 s"}
		}
		as.SetStateInactive()
		if serr != nil {
			return vFailf("sample-rejected", "Sample() on one group of %d channels from %d: %v", c.Nchan, c.First, serr)
		}
		sg, ok := as.groups[GroupIndex{Firstchan: c.First, Nchan: c.Nchan}]
		if !ok {
			return vFailf("group-missing", "after Sample() the source has no group (%d, %d): %v", c.First, c.Nchan, as.groups)
		}
		sg.queue = nil
		g = sg
		viaSource = true
	}
	for a := 0; a < c.NPackets; a++ {
		p := packets.NewPacket(10, 7, uint32(a), c.First)
		d := make([]int16, c.F*c.Nchan)
		for f := 0; f < c.F; f++ {
			for k := 0; k < c.Nchan; k++ {
				d[f*c.Nchan+k] = c.c12dRaw(k, a*c.F+f)
			}
		}
		if err := p.NewData(d, []int16{int16(c.Nchan)}); err != nil {
			return vFailf("harness", "NewData: %v", err)
		}
		q, err := packets.ReadPacket(bytes.NewReader(p.Bytes()))
		if err != nil {
			return vFailf("harness", "ReadPacket: %v", err)
		}
		g.queue = append(g.queue, q)
	}
	total := c.NPackets * c.F
	out := make([][]RawType, c.Nchan)
	ncalls := 0
	for done, k := 0, 0; done < c.NPackets; k++ {
		np := c.Calls[k%len(c.Calls)]
		if done+np > c.NPackets {
			np = c.NPackets - done
		}
		frames := np * c.F
		dcs := make([][]RawType, c.Nchan)
		for i := range dcs {
			dcs[i] = make([]RawType, frames)
		}
		g.demuxData(dcs, frames)
		for i := range dcs {
			if len(dcs[i]) != frames {
				return vFailf("length-changed", "demux call %d: channel %d has %d samples, want %d", k, i, len(dcs[i]), frames)
			}
			out[i] = append(out[i], dcs[i]...)
		}
		done += np
		ncalls++
	}
	drop := uint(0)
	if c.Rescale {
		drop = 4
	}
	inverted := 0
	for ch := 0; ch < c.Nchan; ch++ {
		inv := false
		for _, ic := range c.Invert {
			if ic == c.First+ch {
				inv = true
			}
		}
		if inv {
			inverted++
		}
		ref := make([]RawType, total)
		for i := range ref {
			ref[i] = RawType(c.c12dRaw(ch, i))
		}
		NewPhaseUnwrapper(16, drop, c.Unwrap, opt.calcBiasLevel(), c.ResetAfter, c.PulseSign, inv).UnwrapInPlace(&ref)
		for i := range ref {
			if out[ch][i] != ref[i] {
				return vFailf("demux-unwrap-differs", "channel index %d (number %d, inverted %v) of a %d-channel group, sample %d: the data path gives %d, one unwrapper over the whole channel gives %d (raw %d; GOMAXPROCS %d, %d demux calls)",
					ch, c.First+ch, inv, c.Nchan, i, out[ch][i], ref[i], uint16(c.c12dRaw(ch, i)), c.Procs, ncalls)
			}
		}
	}
	v.NonTrivial = c.Nchan >= 2 && ncalls >= 2 && c.Rescale
	if c.Nchan > c.Procs {
		v.Classes = append(v.Classes, "more-channels-than-procs")
	}
	if inverted > 0 {
		v.Classes = append(v.Classes, "inverted-channels")
	}
	if c.Unwrap {
		v.Classes = append(v.Classes, "unwrap-on")
	}
	if viaSource {
		v.Classes = append(v.Classes, "group-made-by-the-source")
		if c.ViaSource == 2 {
			v.Classes = append(v.Classes, "refused-configure-while-starting")
		}
		if c.ViaRPC {
			v.Classes = append(v.Classes, "options-sent-through-the-rpc-method")
		}
		if c.TwoGroups {
			v.Classes = append(v.Classes, "two-groups-with-inverted-channels")
		}
	}
	_ = fmt.Sprint
	return v
}

func TestVerif_C12Demux(t *testing.T) { vCheck(t, "C12D", c12dGen, c12dRun) }
