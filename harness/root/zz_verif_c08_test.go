//go:build verif

package dastard

// C08: edge-multi triggering is block-boundary independent and never indexes outside.
// Differential: the same one-channel stream is run as one block (A) and cut into a generated
// partition (B) through the real append -> trigger -> trim cycle; the record lists must be identical.
// Validity: strictly increasing trigger frames, full-length records in the fixed-length modes,
// variable-length records neither overlap nor extend past the next edge, every record is an exact
// excerpt (C01 predicate), no panic.

import (
	"testing"

	"pgregory.net/rapid"
)

type c08Case struct {
	P vPipeCase `json:"pipe"` // Blocks = partition of run B; run A uses one block of the same total length
	// Invalid: the edge-multi settings break the documented validity rule for these record lengths (zero-threshold
	// refinement with fewer than 4 samples on either side, or more monotone samples demanded than follow the trigger).
	// The request must be refused; if it is accepted, processing must still not index outside the data.
	Invalid bool `json:"invalid,omitempty"`
}

func c08Gen(t *rapid.T) c08Case {
	var c vPipeCase
	c.Nchan = 1
	c.Npre, c.Nsamp = vGenLengths(t)
	if rapid.IntRange(0, 3).Draw(t, "roomy") != 0 && c.Nsamp < 12 {
		c.Nsamp = rapid.IntRange(12, 64).Draw(t, "nsamp2")
		c.Npre = rapid.IntRange(4, c.Nsamp-4).Draw(t, "npre2")
	}
	c.F0 = vGenF0(t)
	if c.F0 >= 1<<31-1000 && c.F0 < 1<<32+1000 && rapid.IntRange(0, 3).Draw(t, "keepbigf0") != 0 {
		c.F0 = rapid.Int64Range(0, 100000).Draw(t, "f0small")
	}
	c.PeriodNs = 1000
	total := rapid.IntRange(2*c.Nsamp, 30*c.Nsamp).Draw(t, "total")
	c.Blocks = vGenPartition(t, c.Npre, c.Nsamp, total)
	s := vGenStream(t)
	c.Streams = []vStream{s}
	tr := vGenTrig(t, c.Npre, c.Nsamp, c.PeriodNs, true)
	for i := 0; i < 20 && !tr.EMT; i++ {
		tr = vGenTrig(t, c.Npre, c.Nsamp, c.PeriodNs, true)
	}
	if !tr.EMT {
		tr = vTrigCfg{EMT: true, EMTMode: 1, EMTLevel: 50, EMTNMono: 1, EMTNoZero: c.Npre < 4 || c.Nsamp-c.Npre < 4}
	}
	invalid := false
	if rapid.IntRange(0, 7).Draw(t, "invalidcfg") == 0 {
		// break the validity rule on purpose
		switch rapid.IntRange(0, 2).Draw(t, "howinvalid") {
		case 0: // too few pre-trigger samples for the refinement
			c.Npre = 3
			if c.Nsamp < 8 {
				c.Nsamp = 8
			}
			tr.EMTNoZero = false
			tr.EMTNMono = minInt(tr.EMTNMono, c.Nsamp-c.Npre)
		case 1: // too few post-trigger samples for the refinement
			c.Npre = maxInt(c.Npre, 4)
			c.Nsamp = c.Npre + rapid.IntRange(1, 3).Draw(t, "npost")
			tr.EMTNoZero = false
			tr.EMTNMono = minInt(tr.EMTNMono, c.Nsamp-c.Npre)
		default: // more monotone samples than the post-trigger part holds
			tr.EMTNMono = c.Nsamp - c.Npre + rapid.IntRange(1, 5).Draw(t, "monoextra")
		}
		invalid = !tr.emtValid(c.Npre, c.Nsamp)
		c.Blocks = vGenPartition(t, c.Npre, c.Nsamp, total)
	}
	c.Hist = []vHistOp{{At: 0, Kind: "trigger", Chans: []int{0}, Trig: tr}}
	if len(c.Blocks) > 1 && rapid.IntRange(0, 2).Draw(t, "reports") == 0 {
		// a client looks at the state between blocks (every request ends with such a report)
		c.Reports = rapid.SliceOfNDistinct(rapid.IntRange(1, len(c.Blocks)-1), 1, minInt(4, len(c.Blocks)-1), rapid.ID[int]).Draw(t, "reportat")
	}
	c.Pulses = vGenPulses(t, 1, c.Nsamp, c.Blocks, 8)
	// edges on and around the first searchable sample, and pairs closer together than a record
	sign := 1
	if tr.EMTLevel < 0 {
		sign = -1
	}
	amp := func() int {
		a := tr.EMTLevel
		if a < 0 {
			a = -a
		}
		return sign * (a*rapid.IntRange(1, 6).Draw(t, "ampmul") + rapid.IntRange(0, 30).Draw(t, "ampadd"))
	}
	if rapid.IntRange(0, 2).Draw(t, "firstsearchable") == 0 {
		c.Pulses = append(c.Pulses, vPulse{Ch: 0, Pos: c.Npre + rapid.IntRange(-2, 2).Draw(t, "firstoff"), Kind: rapid.SampledFrom([]int{0, 1, 2, 4}).Draw(t, "fk"), Amp: amp(), Len: rapid.IntRange(1, 6).Draw(t, "fl")})
	}
	npairs := rapid.IntRange(0, 3).Draw(t, "npairs")
	for i := 0; i < npairs; i++ {
		p := rapid.IntRange(0, total).Draw(t, "pairpos")
		gap := rapid.IntRange(1, c.Nsamp).Draw(t, "pairgap")
		k := rapid.SampledFrom([]int{0, 2, 4, 1}).Draw(t, "pk")
		c.Pulses = append(c.Pulses, vPulse{Ch: 0, Pos: p, Kind: k, Amp: amp(), Len: rapid.IntRange(1, 8).Draw(t, "pl")},
			vPulse{Ch: 0, Pos: p + gap, Kind: k, Amp: amp(), Len: rapid.IntRange(1, 8).Draw(t, "pl2")})
	}
	// edges at block boundaries -+ (nsamp-npre)
	pos := 0
	for _, b := range c.Blocks {
		pos += b
		if rapid.IntRange(0, 5).Draw(t, "atboundary") == 0 {
			off := rapid.SampledFrom([]int{0, -1, 1, -(c.Nsamp - c.Npre), -(c.Nsamp - c.Npre) - 1, -(c.Nsamp - c.Npre) + 1, c.Npre, -c.Nsamp}).Draw(t, "boff")
			c.Pulses = append(c.Pulses, vPulse{Ch: 0, Pos: pos + off, Kind: rapid.SampledFrom([]int{0, 2, 4}).Draw(t, "bk"), Amp: amp(), Len: rapid.IntRange(1, 6).Draw(t, "bl")})
		}
		if len(c.Pulses) > 24 {
			break
		}
	}
	return c08Case{P: c, Invalid: invalid}
}

type c08Rec struct {
	ch       int
	frame    int64
	pre, n   int
	data     []RawType
}

func c08Collect(c *vPipeCase) ([]c08Rec, *vVerdict) {
	var out []c08Rec
	_, fail := vRunPipe(c, func(tr *vTrace, k int, recs []*DataRecord) *vVerdict {
		for _, r := range recs {
			if f := vCheckExcerpt(c, tr, k, r); f != nil {
				return f
			}
			out = append(out, c08Rec{ch: r.channelIndex, frame: int64(r.trigFrame), pre: r.presamples, n: len(r.data), data: r.data})
		}
		return nil
	})
	return out, fail
}

func c08Run(cc c08Case) (v vVerdict) {
	c := cc.P
	if cc.Invalid {
		if len(c.Hist) != 1 || c.Hist[0].Kind != "trigger" || !c.Hist[0].Trig.EMT || c.Hist[0].Trig.emtValid(c.Npre, c.Nsamp) {
			return v
		}
		probe := c
		probe.Hist = nil
		if !probe.valid() || c.Nchan != 1 || len(c.Restored) != 0 {
			return v
		}
		_, fail := c08Collect(&c)
		if fail != nil && fail.Sig == "config-rejected" {
			v.Classes = append(v.Classes, "invalid-settings-refused")
			return v
		}
		if fail != nil {
			fail.Msg = "edge-multi settings that break the validity rule were accepted; then: " + fail.Msg
			return *fail
		}
		v.Classes = append(v.Classes, "invalid-settings-accepted-without-harm")
		return v
	}
	if !c.valid() || c.Nchan != 1 || len(c.Hist) != 1 || c.Hist[0].Kind != "trigger" || !c.Hist[0].Trig.EMT || c.Hist[0].At != 0 || len(c.Restored) != 0 {
		return v
	}
	cfg := c.Hist[0].Trig
	total := 0
	for _, b := range c.Blocks {
		total += b
	}
	a := c
	a.Blocks = []int{total}
	a.JitterNs = nil
	a.Reports = nil
	recA, fail := c08Collect(&a)
	if fail != nil {
		fail.Msg = "one-block run: " + fail.Msg
		return *fail
	}
	recB, fail := c08Collect(&c)
	if fail != nil {
		fail.Msg = "partitioned run: " + fail.Msg
		return *fail
	}
	// validity of each run
	for name, recs := range map[string][]c08Rec{"one-block": recA, "partitioned": recB} {
		for i, r := range recs {
			if i > 0 && r.frame <= recs[i-1].frame {
				return vFailf("emt-order", "%s run: record %d at frame %d does not follow record at frame %d in strictly increasing order", name, i, r.frame, recs[i-1].frame)
			}
			if cfg.EMTMode != 1 && (r.pre != c.Npre || r.n != c.Nsamp) {
				return vFailf("emt-length", "%s run: fixed-length mode %d gives record pre=%d len=%d, configured %d/%d", name, cfg.EMTMode, r.pre, r.n, c.Npre, c.Nsamp)
			}
			if cfg.EMTMode == 1 && i > 0 {
				p := recs[i-1]
				endPrev := p.frame - int64(p.pre) + int64(p.n) // one past the last sample of the previous record
				start := r.frame - int64(r.pre)
				if endPrev > start {
					return vFailf("emt-overlap", "%s run: variable-length records overlap: record at frame %d (pre %d, len %d) ends at %d, next (frame %d, pre %d) starts at %d",
						name, p.frame, p.pre, p.n, endPrev, r.frame, r.pre, start)
				}
				if endPrev > r.frame {
					return vFailf("emt-past-next-edge", "%s run: record at frame %d extends to %d, past the next edge at %d", name, p.frame, endPrev, r.frame)
				}
			}
		}
	}
	// differential
	if len(recA) != len(recB) {
		return vFailf("emt-block-dependent", "one block gives %d records %v, partition %v gives %d records %v", len(recA), c08Frames(recA), c.Blocks, len(recB), c08Frames(recB))
	}
	for i := range recA {
		x, y := recA[i], recB[i]
		same := x.frame == y.frame && x.pre == y.pre && x.n == y.n
		for k := 0; same && k < x.n; k++ {
			same = x.data[k] == y.data[k]
		}
		if !same {
			return vFailf("emt-block-dependent", "record %d differs: one block gives (frame %d, pre %d, len %d), partition %v gives (frame %d, pre %d, len %d)",
				i, x.frame, x.pre, x.n, c.Blocks, y.frame, y.pre, y.n)
		}
	}
	seedv := 0
	if len(c.Streams) > 0 {
		seedv = c.Streams[0].Seed
	}
	if seedv%3 == 0 {
		// schedules: the same stream on four channels, processed side by side (one goroutine per channel in ProcessSegments);
		// every channel must give the records the single channel gave
		m := c
		m.Nchan = 4
		m.Streams = []vStream{c.Streams[0], c.Streams[0], c.Streams[0], c.Streams[0]}
		m.Pulses = nil
		for ch := 0; ch < 4; ch++ {
			for _, pu := range c.Pulses {
				pu.Ch = ch
				m.Pulses = append(m.Pulses, pu)
			}
		}
		m.Hist = []vHistOp{{At: 0, Kind: "trigger", Chans: []int{0, 1, 2, 3}, Trig: cfg}}
		if m.valid() {
			recM, fail := c08Collect(&m)
			if fail != nil {
				fail.Msg = "four channels side by side: " + fail.Msg
				return *fail
			}
			for ch := 0; ch < 4; ch++ {
				var mine []c08Rec
				for _, r := range recM {
					if r.ch == ch {
						mine = append(mine, r)
					}
				}
				same := len(mine) == len(recB)
				for i := 0; same && i < len(mine); i++ {
					x, y := mine[i], recB[i]
					same = x.frame == y.frame && x.pre == y.pre && x.n == y.n
					for k := 0; same && k < x.n; k++ {
						same = x.data[k] == y.data[k]
					}
				}
				if !same {
					return vFailf("emt-schedule-dependent", "the same stream on four channels processed side by side: channel %d gives records at %v, alone the stream gives %v", ch, c08Frames(mine), c08Frames(recB))
				}
			}
			v.Classes = append(v.Classes, "four-channels-side-by-side")
		}
	}
	if seedv%3 == 1 && len(c.Blocks) >= 2 {
		// block pattern with lost data: the source's frame numbers jump between blocks. Nothing is asserted about the records
		// (the stream re-labels what it holds); processing must not crash.
		g := c
		g.Gaps = make([]int, len(c.Blocks))
		for k := 1; k < len(g.Gaps); k++ {
			g.Gaps[k] = []int{0, 0, c.Nsamp + 11, 300, 5, 100000}[(seedv/3+k*7)%6]
		}
		if _, fail := vRunPipe(&g, nil); fail != nil && fail.Sig != "record-changed-after-publication" {
			fail.Msg = "frame numbers jumping between blocks: " + fail.Msg
			return *fail
		}
		v.Classes = append(v.Classes, "frame-gaps-between-blocks")
	}
	if len(c.Reports) > 0 {
		v.Classes = append(v.Classes, "state-reports-between-blocks")
	}
	near := false
	pos := 0
	for _, b := range c.Blocks[:len(c.Blocks)-1] {
		pos += b
		for _, r := range recB {
			g := r.frame - c.F0
			if g-int64(pos) <= int64(c.Nsamp) && int64(pos)-g <= int64(c.Nsamp) {
				near = true
			}
		}
	}
	first := false
	for _, r := range recB {
		if r.frame-c.F0 <= int64(c.Npre+1) {
			first = true
		}
	}
	v.NonTrivial = len(recB) >= 2 && (near || first)
	if first {
		v.Classes = append(v.Classes, "edge-at-first-searchable-sample")
	}
	if near {
		v.Classes = append(v.Classes, "edge-near-block-boundary")
	}
	v.Classes = append(v.Classes, []string{"mode-two-full", "mode-variable", "mode-isolated"}[cfg.EMTMode])
	if !cfg.EMTNoZero {
		v.Classes = append(v.Classes, "zero-threshold")
	}
	if len(recB) == 0 {
		v.Classes = append(v.Classes, "no-records")
	}
	return v
}

func c08Frames(r []c08Rec) []int64 {
	var out []int64
	for _, x := range r {
		out = append(out, x.frame)
	}
	return out
}

func TestVerif_C08(t *testing.T) { vCheck(t, "C08", c08Gen, c08Run) }
