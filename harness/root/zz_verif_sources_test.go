//go:build verif

package dastard

// Harness-owned data sources and monitors shared by the life-cycle, control-request and race checks
// (C10, C11, C17): a scripted source whose producer sends blocks, an error block, or closes the
// channel exactly when told to, and a monitoring wrapper that any real source can be put into.

import (
	"fmt"
	"runtime"
	"strings"
	"sync"
	"sync/atomic"
	"time"

	"gonum.org/v1/gonum/mat"
)

// vScripted is a DataSource built on the real AnySource (so Start/CoreLoop/Stop/ProcessSegments are
// the production code); only the producer goroutine is the harness'.
type vScripted struct {
	AnySource
	Period      time.Duration
	BlockLen    int
	FailSample  error // returned by Sample()
	FailRun     error // returned by StartRun()
	ctl         chan string
	produced    int64
	starts      int
	ExtTrig     bool // blocks carry external-trigger counts
	DropEvery   int  // every n-th block reports dropped frames
	producerEnd chan struct{}
}

func newScripted(nchan int, period time.Duration, blockLen int) *vScripted {
	s := &vScripted{Period: period, BlockLen: blockLen}
	s.nchan = nchan
	s.name = "Scripted"
	s.ctl = make(chan string, 4)
	return s
}

func (s *vScripted) Sample() error {
	if s.FailSample != nil {
		return s.FailSample
	}
	s.sampleRate = float64(s.BlockLen) / s.Period.Seconds()
	s.samplePeriod = time.Duration(float64(s.Period) / float64(s.BlockLen))
	s.rowColCodes = make([]RowColCode, s.nchan) // as the simulated sources do in Sample()
	for i := range s.rowColCodes {
		s.rowColCodes[i] = rcCode(0, i, 1, s.nchan)
	}
	return nil
}

func (s *vScripted) StartRun() error {
	if s.FailRun != nil {
		return s.FailRun
	}
	s.starts++
	for len(s.ctl) > 0 { // commands meant for an earlier run
		<-s.ctl
	}
	end := make(chan struct{})
	s.producerEnd = end
	nchan, blockLen := s.nchan, s.BlockLen
	abortSelf, nextBlock := s.abortSelf, s.nextBlock
	go func() {
		defer close(end)
		t := time.NewTicker(s.Period)
		defer t.Stop()
		for {
			select {
			case <-abortSelf:
				close(nextBlock)
				return
			case cmd := <-s.ctl:
				switch cmd {
				case "error":
					b := new(dataBlock)
					b.err = fmt.Errorf("scripted source error")
					nextBlock <- b
					close(nextBlock)
					return
				case "close":
					close(nextBlock)
					return
				}
			case now := <-t.C:
				n := atomic.AddInt64(&s.produced, 1)
				block := &dataBlock{segments: make([]DataSegment, nchan), nSamp: blockLen}
				first := now.Add(-s.Period)
				for ch := 0; ch < nchan; ch++ {
					raw := make([]RawType, blockLen)
					for k := range raw {
						raw[k] = RawType(1000*(ch+1) + (int(s.nextFrameNum)+k)%251)
					}
					block.segments[ch] = DataSegment{rawData: raw, framesPerSample: 1, framePeriod: s.samplePeriod, firstFrameIndex: s.nextFrameNum, firstTime: first}
					if s.DropEvery > 0 && n%int64(s.DropEvery) == 0 {
						block.segments[ch].droppedFrames = 3
					}
				}
				if s.ExtTrig {
					block.externalTriggerRowcounts = []int64{int64(s.nextFrameNum) * 4, int64(s.nextFrameNum)*4 + 2}
				}
				s.nextFrameNum += FrameIndex(blockLen)
				select {
				case nextBlock <- block:
				case <-abortSelf:
					close(nextBlock)
					return
				}
			}
		}
	}()
	return nil
}

// vMonitor watches for overlap of block processing and request handling and counts processed blocks.
type vMonitor struct {
	inProcess int32
	inRequest int32
	processed int64
	slow      time.Duration // extra time spent inside ProcessSegments (makes overlap observable)
	mu        sync.Mutex
	overlap   string
	park        chan struct{} // when set, the end-of-run deactivation waits for it to be closed
	parked      int32
	deactivated int32
	blockHook   func(*dataBlock) // when set: sees every block before it is processed (core-loop goroutine)
}

func (m *vMonitor) note(what string) {
	m.mu.Lock()
	if m.overlap == "" {
		m.overlap = what
	}
	m.mu.Unlock()
}

func (m *vMonitor) Overlap() string {
	m.mu.Lock()
	defer m.mu.Unlock()
	return m.overlap
}

func (m *vMonitor) request(name string, f func()) {
	if vMonQuiet {
		f()
		return
	}
	if atomic.LoadInt32(&m.inProcess) != 0 {
		m.note(name + " started while a data block was being processed")
	}
	atomic.AddInt32(&m.inRequest, 1)
	f()
	if atomic.LoadInt32(&m.inProcess) != 0 {
		m.note("a data block was processed while " + name + " was being applied")
	}
	atomic.AddInt32(&m.inRequest, -1)
}

// vMon wraps any DataSource; Start/CoreLoop and the RPC closures reach the source through it.
type vMon struct {
	DataSource
	mon *vMonitor
}

// RunDoneDeactivate is what the core loop calls (deferred) when a run ends.  The monitor can hold it back
// until released, which lets a check place the end of a run at a chosen point of another call.
func (w *vMon) RunDoneDeactivate() {
	w.mon.mu.Lock()
	park := w.mon.park
	w.mon.mu.Unlock()
	if park != nil {
		atomic.StoreInt32(&w.mon.parked, 1)
		select {
		case <-park:
		case <-time.After(5 * time.Second):
		}
	}
	w.DataSource.RunDoneDeactivate()
	atomic.StoreInt32(&w.mon.parked, 0)
	atomic.AddInt32(&w.mon.deactivated, 1)
}

func (m *vMonitor) setPark(c chan struct{}) {
	m.mu.Lock()
	m.park = c
	m.mu.Unlock()
}

// vMonQuiet switches the monitor's own bookkeeping off.  The race check sets it: the monitor's atomic counters
// would otherwise order the core loop before the harness goroutine that polls them, and hide real races.
var vMonQuiet bool

func (w *vMon) ProcessSegments(b *dataBlock) error {
	if w.mon.blockHook != nil {
		w.mon.blockHook(b)
	}
	if vMonQuiet {
		if w.mon.slow > 0 {
			time.Sleep(w.mon.slow)
		}
		return w.DataSource.ProcessSegments(b)
	}
	if atomic.LoadInt32(&w.mon.inRequest) != 0 {
		w.mon.note("block processing started while a control request was being applied")
	}
	atomic.AddInt32(&w.mon.inProcess, 1)
	if w.mon.slow > 0 {
		time.Sleep(w.mon.slow)
	}
	err := w.DataSource.ProcessSegments(b)
	if atomic.LoadInt32(&w.mon.inRequest) != 0 {
		w.mon.note("a control request was applied while a data block was being processed")
	}
	atomic.AddInt32(&w.mon.inProcess, -1)
	atomic.AddInt64(&w.mon.processed, 1)
	return err
}
func (w *vMon) ChangeTriggerState(s *FullTriggerState) (err error) {
	w.mon.request("ChangeTriggerState", func() { err = w.DataSource.ChangeTriggerState(s) })
	return
}
func (w *vMon) ConfigurePulseLengths(a, b int) (err error) {
	w.mon.request("ConfigurePulseLengths", func() { err = w.DataSource.ConfigurePulseLengths(a, b) })
	return
}
func (w *vMon) ConfigureProjectorsBases(i int, p, b *mat.Dense, d string) (err error) {
	w.mon.request("ConfigureProjectorsBases", func() { err = w.DataSource.ConfigureProjectorsBases(i, p, b, d) })
	return
}
func (w *vMon) WriteControl(c *WriteControlConfig) (err error) {
	w.mon.request("WriteControl", func() { err = w.DataSource.WriteControl(c) })
	return
}
func (w *vMon) SetCoupling(c CouplingStatus) (err error) {
	w.mon.request("SetCoupling", func() { err = w.DataSource.SetCoupling(c) })
	return
}
func (w *vMon) ChangeGroupTrigger(on bool, g *GroupTriggerState) (err error) {
	w.mon.request("ChangeGroupTrigger", func() { err = w.DataSource.ChangeGroupTrigger(on, g) })
	return
}
func (w *vMon) StopTriggerCoupling() (err error) {
	w.mon.request("StopTriggerCoupling", func() { err = w.DataSource.StopTriggerCoupling() })
	return
}
func (w *vMon) SetExperimentStateLabel(t time.Time, l string) (err error) {
	w.mon.request("SetExperimentStateLabel", func() { err = w.DataSource.SetExperimentStateLabel(t, l) })
	return
}

// vDastardGoroutines returns the stacks of goroutines that are executing dastard (non-harness) code,
// keyed by a short description of where they are.
func vDastardGoroutines() []string {
	buf := make([]byte, 1<<20)
	n := runtime.Stack(buf, true)
	var out []string
	for _, g := range strings.Split(string(buf[:n]), "\n\n") {
		lines := strings.Split(g, "\n")
		if len(lines) < 2 {
			continue
		}
		inDastard := false
		where := ""
		for i := 1; i+1 < len(lines); i += 2 {
			fn, file := lines[i], lines[i+1]
			if strings.Contains(fn, "usnistgov/dastard") && !strings.Contains(file, "zz_verif_") {
				if !inDastard {
					where = fn
					if j := strings.LastIndex(where, "("); j > 0 {
						where = where[:j]
					}
					if j := strings.LastIndex(where, "/"); j >= 0 {
						where = where[j+1:]
					}
				}
				inDastard = true
			}
		}
		if inDastard {
			hdr := lines[0]
			if j := strings.Index(hdr, "["); j >= 0 {
				hdr = hdr[j:]
			}
			out = append(out, where+" "+hdr)
		}
	}
	return out
}

// vGoroutineDump returns the full dump of all goroutines (for reports).
func vGoroutineDump() string {
	buf := make([]byte, 1<<20)
	n := runtime.Stack(buf, true)
	return string(buf[:n])
}

// vLiveCard is an endless in-memory Lancero card: a sampling phase of well-formed empty frames, then a run phase
// that adds a few patterned frames on every read (the reader's 50 ms tick is the clock).
type vLiveCard struct {
	mu        sync.Mutex
	cols      int
	rows      int
	collStart int
	frames    int
	buf       []byte
	period    time.Duration
	t0        time.Time
	// like the driver (and lancero.NoHardware), the card refuses to start what runs and to stop what does not
	adapOn, collOn bool
	// stopCollFaultAt: the StopCollector call with this number (1 is the one that ends the sampling phase, 2 ends the first run)
	// stops the collector but reports a driver error all the same
	stopCollFaultAt int
	stopCollCalls   int
	stopAdapterDelay time.Duration
	entered, release chan struct{} // when set: the first AvailableBuffer call signals entered and waits for release
}

func (k *vLiveCard) ChangeRingBuffer(int, int) error { return nil }
func (k *vLiveCard) Close() error                      { return nil }
func (k *vLiveCard) StartAdapter(int, int) error {
	k.mu.Lock()
	defer k.mu.Unlock()
	if k.adapOn {
		return fmt.Errorf("scripted card: StartAdapter: already started")
	}
	k.adapOn = true
	return nil
}
func (k *vLiveCard) StopAdapter() error {
	if k.stopAdapterDelay > 0 { // a card that takes a while to stop its DMA engine
		time.Sleep(k.stopAdapterDelay)
	}
	k.mu.Lock()
	defer k.mu.Unlock()
	if !k.adapOn {
		return fmt.Errorf("scripted card: StopAdapter: not started")
	}
	k.adapOn = false
	return nil
}
func (k *vLiveCard) CollectorConfigure(int, int, uint32, int) error { return nil }
func (k *vLiveCard) StopCollector() error {
	k.mu.Lock()
	defer k.mu.Unlock()
	if !k.collOn {
		return fmt.Errorf("scripted card: StopCollector: collector stopped already")
	}
	k.collOn = false
	k.stopCollCalls++
	if k.stopCollCalls == k.stopCollFaultAt {
		return fmt.Errorf("scripted card: the driver reports an error while stopping the collector")
	}
	return nil
}
func (k *vLiveCard) InspectAdapter() uint32                         { return 0 }
func (k *vLiveCard) Wait() (time.Time, time.Duration, error)        { return time.Now(), 0, nil }
func (k *vLiveCard) StartCollector(bool) error {
	k.mu.Lock()
	if k.collOn {
		k.mu.Unlock()
		return fmt.Errorf("scripted card: StartCollector: collector started already")
	}
	k.collOn = true
	k.collStart++
	k.buf = nil
	k.mu.Unlock()
	return nil
}
func (k *vLiveCard) frame(f int, pattern bool) []byte {
	b := make([]byte, 0, 4*k.cols*k.rows)
	for r := 0; r < k.rows; r++ {
		for c := 0; c < k.cols; c++ {
			var e, fb uint16
			if pattern {
				e = uint16((f*7 + r*3 + c) % 50)
				fb = uint16(1000*(r+1)+(f%200)*4) &^ 3
				if f%97 == 5 && r == 1 {
					fb |= 2 // external trigger now and then
				}
			}
			if r == 0 {
				fb |= 1
			}
			b = append(b, byte(e), byte(e>>8), byte(fb), byte(fb>>8))
		}
	}
	return b
}
func (k *vLiveCard) AvailableBuffer() ([]byte, time.Time, error) {
	if k.entered != nil { // the first read of the sampling phase waits until the harness lets it go on
		k.mu.Lock()
		entered, release := k.entered, k.release
		k.entered = nil
		k.mu.Unlock()
		if entered != nil {
			close(entered)
			select {
			case <-release:
			case <-time.After(5 * time.Second):
			}
		}
	}
	k.mu.Lock()
	defer k.mu.Unlock()
	n, pattern := 32, false
	if k.collStart >= 2 && k.collStart%2 == 0 {
		n, pattern = 8, true
	}
	for i := 0; i < n; i++ {
		k.buf = append(k.buf, k.frame(k.frames, pattern)...)
		k.frames++
	}
	return append([]byte(nil), k.buf...), k.t0.Add(time.Duration(k.frames) * k.period), nil
}
func (k *vLiveCard) ReleaseBytes(n int) error {
	k.mu.Lock()
	defer k.mu.Unlock()
	if n > len(k.buf) {
		n = len(k.buf)
	}
	k.buf = k.buf[n:]
	return nil
}
