//go:build verif

package dastard

// C19 (second harness): the channel groups as clients are told. The real SourceControl configures and starts its Lancero
// source (one in-memory card) several times in a row with generated geometry and numbering (first-row number, column
// separation); after every Start the channel groups of the last STATUS message and the CHANNELNAMES message must
// describe exactly the channel numbers the running source uses.

import (
	"encoding/json"
	"fmt"
	"os"
	"path/filepath"
	"sort"
	"testing"
	"time"

	"github.com/spf13/viper"
	"pgregory.net/rapid"
)

type c19rRound struct {
	Cols     int `json:"cols"`
	Rows     int `json:"rows"`
	FirstRow int `json:"first_row"`
	SepCols  int `json:"sep_cols"`
}

type c19rCase struct {
	Rounds []c19rRound `json:"rounds"`
}

func c19rGen(t *rapid.T) c19rCase {
	var c c19rCase
	n := rapid.IntRange(2, 4).Draw(t, "rounds")
	cols := rapid.IntRange(1, 2).Draw(t, "cols")
	rows := rapid.IntRange(2, 4).Draw(t, "rows")
	for i := 0; i < n; i++ {
		switch rapid.IntRange(0, 3).Draw(t, "geomchange") {
		case 0: // another shape, possibly with the same number of channels
			cols = rapid.IntRange(1, 2).Draw(t, "cols2")
			rows = rapid.IntRange(2, 4).Draw(t, "rows2")
		case 1:
			if cols == 2 && rows == 2 {
				cols, rows = 1, 4
			} else if cols == 1 && rows == 4 {
				cols, rows = 2, 2
			}
		}
		r := c19rRound{Cols: cols, Rows: rows, FirstRow: rapid.SampledFrom([]int{1, 1, 0, 33, 101, 1000}).Draw(t, "firstrow")}
		if cols > 1 {
			r.SepCols = rapid.SampledFrom([]int{0, 0, rows, rows + 3, 32, 100}).Draw(t, "sepcols")
		}
		c.Rounds = append(c.Rounds, r)
	}
	return c
}

var c19rCounter int

func c19rRun(c c19rCase) (v vVerdict) {
	if len(c.Rounds) < 1 || len(c.Rounds) > 6 {
		return v
	}
	c19rCounter++
	work := os.Getenv("VERIF_WORK")
	if work == "" {
		work = os.TempDir()
	}
	root := filepath.Join(work, fmt.Sprintf("c19r_%d_%d", os.Getpid(), c19rCounter))
	os.RemoveAll(root)
	os.MkdirAll(root, 0o755)
	defer os.RemoveAll(root)
	// Start stores the channel groups for other programs in $HOME/.dastard/channels.json
	os.MkdirAll(filepath.Join(root, ".dastard"), 0o755)
	oldHome := os.Getenv("HOME")
	os.Setenv("HOME", root)
	defer os.Setenv("HOME", oldHome)
	vDrainRecords()
	viper.Reset()
	sc := NewSourceControl()
	sc.clientUpdates = clientMessageChan
	ms := newMapServer()
	ms.clientUpdates = clientMessageChan
	sc.mapServer = ms
	sc.status.Npresamp, sc.status.Nsamples = 8, 32
	sc.ActiveSource = sc.triangle
	hbStop := make(chan struct{})
	go func() {
		for {
			select {
			case <-sc.heartbeats:
			case <-hbStop:
				return
			}
		}
	}()
	defer close(hbStop)
	cg := filepath.Join(root, "cringeGlobals.json")
	oldPath := cringeGlobalsPath
	cringeGlobalsPath = cg
	defer func() { cringeGlobalsPath = oldPath }()
	stop := func() {
		if sc.isSourceActive {
			var r bool
			d := ""
			sc.Stop(&d, &r)
		}
	}
	defer stop()
	sameCount, renumbered := false, false
	duringStart := false
	prevN, prevFirst := -1, 0
	for i, r := range c.Rounds {
		if r.Cols < 1 || r.Cols > 4 || r.Rows < 2 || r.Rows > 16 {
			return v
		}
		os.WriteFile(cg, []byte(fmt.Sprintf(`{"SETT":1,"seqln":%d,"lsync":20000,"testpattern":0,"propagationdelay":0,"NSAMP":4,"carddelay":0,"XPT":0}`, r.Rows)), 0o644)
		card := &vLiveCard{cols: r.Cols, rows: r.Rows, period: time.Duration(20000 * r.Rows * 8), t0: vPipeT0}
		sc.lancero.devices = map[int]*LanceroDevice{0: {devnum: 0, card: card}}
		sc.lancero.ncards = 1
		var okc bool
		cfg := &LanceroSourceConfig{FiberMask: 0xffff, ActiveCards: []int{0}, CardDelay: []int{1}, FirstRow: r.FirstRow, ChanSepColumns: r.SepCols}
		if err := sc.ConfigureLanceroSource(cfg, &okc); err != nil {
			return vFailf("configure-rejected", "round %d: ConfigureLanceroSource(%+v): %v", i, r, err)
		}
		c11SettleClientMessages()
		vTakeClientMessages()
		name := "LANCEROSOURCE"
		var ok bool
		var serr error
		if i%2 == 1 {
			// another Configure request (other numbering) arrives while this Start is sampling the card: it must be refused
			card.entered, card.release = make(chan struct{}), make(chan struct{})
			entered, release := card.entered, card.release
			done := make(chan error, 1)
			go func() { done <- sc.Start(&name, &ok) }()
			select {
			case <-entered:
				other := &LanceroSourceConfig{FiberMask: 0xffff, ActiveCards: []int{0}, CardDelay: []int{1}, FirstRow: r.FirstRow + 500, ChanSepColumns: r.SepCols + 64}
				var okc2 bool
				cerr := sc.ConfigureLanceroSource(other, &okc2)
				close(release)
				serr = <-done
				if cerr == nil {
					stop()
					return vFailf("configure-accepted-while-starting", "round %d: a ConfigureLanceroSource request was accepted while a Start was sampling the card", i)
				}
				duringStart = true
			case serr = <-done:
				close(release)
			}
		} else {
			serr = sc.Start(&name, &ok)
		}
		if err := serr; err != nil {
			if r.SepCols != 0 && r.SepCols < r.Rows {
				continue // a column separation smaller than the rows per column collides: refused by design
			}
			return vFailf("start-rejected", "round %d: Start of the Lancero source (%+v): %v", i, r, err)
		}
		c11SettleClientMessages()
		used := append([]int(nil), sc.lancero.chanNumbers...)
		var groups []GroupIndex
		haveStatus := false
		for _, u := range vTakeClientMessages() {
			if u.tag == "STATUS" {
				if st, ok := u.state.(ServerStatus); ok {
					groups, haveStatus = st.ChanGroups, true
				} else if st, ok := u.state.(*ServerStatus); ok {
					groups, haveStatus = append([]GroupIndex(nil), st.ChanGroups...), true
				}
			}
		}
		stored, rerr := os.ReadFile(filepath.Join(root, ".dastard", "channels.json"))
		stop()
		if rerr != nil {
			return vFailf("stored-groups-missing", "round %d: Start succeeded but the stored channel-group report cannot be read: %v", i, rerr)
		}
		var storedGroups []GroupIndex
		if err := json.Unmarshal(stored, &storedGroups); err != nil {
			return vFailf("stored-groups-unreadable", "round %d: the stored channel-group report is not valid JSON (%v): %s", i, err, vTrim(string(stored), 300))
		}
		if haveStatus && fmt.Sprint(storedGroups) != fmt.Sprint(groups) {
			return vFailf("stored-groups-differ", "round %d: the stored channel-group report says %v, the STATUS message %v", i, storedGroups, groups)
		}
		if !haveStatus {
			return vFailf("status-not-sent", "round %d: Start succeeded but no STATUS message was sent to clients", i)
		}
		inUse := map[int]bool{}
		for _, n := range used {
			inUse[n] = true
		}
		covered := map[int]bool{}
		for _, g := range groups {
			for k := 0; k < g.Nchan; k++ {
				covered[g.Firstchan+k] = true
			}
		}
		var missing, extra []int
		for n := range inUse {
			if !covered[n] {
				missing = append(missing, n)
			}
		}
		for n := range covered {
			if !inUse[n] {
				extra = append(extra, n)
			}
		}
		sort.Ints(missing)
		sort.Ints(extra)
		if len(missing) > 0 || len(extra) > 0 {
			return vFailf("reported-groups-differ", "round %d (%d cols x %d rows, first row %d, column separation %d): the STATUS message reports channel groups %v; channel numbers in use but not covered %v, covered but not in use %v",
				i, r.Cols, r.Rows, r.FirstRow, r.SepCols, groups, missing, extra)
		}
		if prevN == len(used) && prevFirst != r.FirstRow {
			sameCount, renumbered = true, true
		}
		prevN, prevFirst = len(used), r.FirstRow
	}
	v.NonTrivial = sameCount && renumbered
	if renumbered {
		v.Classes = append(v.Classes, "restart-same-count-other-numbers")
	}
	if duringStart {
		v.Classes = append(v.Classes, "configure-request-during-start")
	}
	return v
}

func TestVerif_C19R(t *testing.T) { vCheck(t, "C19R", c19rGen, c19rRun) }
