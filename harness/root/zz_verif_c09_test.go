//go:build verif

package dastard

// C09: group triggers deliver exactly the connected secondaries; edits act as a set.
// A history of add / delete / stop-coupling / err-fb-coupling requests (with in-range, out-of-range,
// negative, repeated and self indices) is interleaved with data blocks on a LanceroSource value used
// for its AnySource and SetCoupling.  Model: a set of (source, receiver) pairs.  After every edit the
// reported connection state must equal the model; after every data cycle the multiset of record
// frames on each channel must equal its own primaries plus the primaries of its model sources.

import (
	"fmt"
	"sort"
	"testing"

	"pgregory.net/rapid"
)

func c09Gen(t *rapid.T) vPipeCase {
	var c vPipeCase
	c.Lancero = true
	c.Nchan = rapid.SampledFrom([]int{2, 4, 4, 6}).Draw(t, "nchan")
	c.Npre, c.Nsamp = vGenLengths(t)
	c.F0 = vGenF0(t)
	c.PeriodNs = 1000
	total := rapid.IntRange(3*c.Nsamp, 25*c.Nsamp).Draw(t, "total")
	c.Blocks = vGenPartition(t, c.Npre, c.Nsamp, total)
	if len(c.Blocks) > 60 { // keep histories readable: merge the tail
		rest := 0
		for _, b := range c.Blocks[60:] {
			rest += b
		}
		c.Blocks = append(c.Blocks[:60:60], rest)
	}
	for ch := 0; ch < c.Nchan; ch++ {
		s := vGenStream(t)
		if s.Noise > 5 {
			s.Noise = 1
		}
		s.Random = false
		c.Streams = append(c.Streams, s)
	}
	c.Pulses = vGenPulses(t, c.Nchan, c.Nsamp, c.Blocks, 10)
	if rapid.IntRange(0, 3).Draw(t, "emptyblocks") == 0 && len(c.Blocks) >= 2 {
		// now and then the source delivers a block without samples
		c.EmptyBlocks = true
		for k := rapid.IntRange(1, 3).Draw(t, "nempty"); k > 0; k-- {
			at := rapid.IntRange(1, len(c.Blocks)).Draw(t, "emptyat")
			c.Blocks = append(c.Blocks[:at:at], append([]int{0}, c.Blocks[at:]...)...)
		}
	}
	// trigger settings: some channels off, some edge, some auto, sometimes only a subset configured after a fresh start
	mode := rapid.IntRange(0, 5).Draw(t, "cfgmode")
	for ch := 0; ch < c.Nchan; ch++ {
		if mode == 0 && rapid.Bool().Draw(t, "skipcfg") {
			continue // never configured
		}
		var tr vTrigCfg
		switch rapid.IntRange(0, 5).Draw(t, "trigkind") {
		case 5: // edge-multi source or receiver (its records can be emitted one cycle after the data arrived)
			tr = vTrigCfg{EMT: true, EMTMode: rapid.IntRange(0, 2).Draw(t, "emtmode"), EMTLevel: rapid.SampledFrom([]int{2, 10, 100, -10}).Draw(t, "emtlevel"),
				EMTNoZero: rapid.Bool().Draw(t, "emtnozero") || c.Npre < 4 || c.Nsamp-c.Npre < 4, EMTNMono: rapid.IntRange(0, minInt(2, c.Nsamp-c.Npre)).Draw(t, "emtnmono")}
			if mode == 1 {
				tr = vTrigCfg{Edge: true, EdgeRising: true, EdgeLevel: 10} // edge-multi is documented as not restored from a saved configuration
			}
		case 0: // all off
		case 1:
			tr = vTrigCfg{Auto: true, AutoDelayNs: c.PeriodNs * int64(rapid.SampledFrom([]int{0, c.Nsamp, 3 * c.Nsamp, 7*c.Nsamp + 3}).Draw(t, "delay"))}
		case 2:
			tr = vTrigCfg{Level: true, LevelRising: true, LevelLevel: rapid.IntRange(0, 65535).Draw(t, "lvl")}
		default:
			tr = vTrigCfg{Edge: true, EdgeRising: true, EdgeFalling: rapid.Bool().Draw(t, "fall"), EdgeLevel: rapid.SampledFrom([]int{2, 10, 100, 800}).Draw(t, "elvl")}
		}
		if mode == 1 {
			c.Restored = append(c.Restored, vRestored{Chans: []int{ch}, Trig: tr})
		} else {
			c.Hist = append(c.Hist, vHistOp{At: 0, Kind: "trigger", Chans: []int{ch}, Trig: tr})
		}
	}
	idx := func(label string) int {
		switch rapid.IntRange(0, 9).Draw(t, label+"class") {
		case 0:
			return c.Nchan + rapid.IntRange(0, 5).Draw(t, label+"hi")
		case 1:
			return -rapid.IntRange(1, 3).Draw(t, label+"neg")
		default:
			return rapid.IntRange(0, c.Nchan-1).Draw(t, label)
		}
	}
	nops := rapid.IntRange(1, 10).Draw(t, "nops")
	at := 0
	for i := 0; i < nops; i++ {
		if len(c.Blocks) > 1 {
			at = rapid.IntRange(at, len(c.Blocks)-1).Draw(t, "at")
		}
		h := vHistOp{At: at}
		switch rapid.IntRange(0, 11).Draw(t, "opkind") {
		case 0, 1, 2, 3, 4:
			h.Kind = "connect"
		case 5, 6, 7:
			h.Kind = "disconnect"
		case 8:
			h.Kind = "stopcoupling"
		default:
			h.Kind = "coupling"
			h.Coupling = rapid.IntRange(1, 3).Draw(t, "coupling")
		}
		if h.Kind == "connect" || h.Kind == "disconnect" {
			h.Src = idx("src")
			nrx := rapid.IntRange(1, 3).Draw(t, "nrx")
			for k := 0; k < nrx; k++ {
				h.Rx = append(h.Rx, idx("rx"))
			}
			if rapid.IntRange(0, 5).Draw(t, "self") == 0 {
				h.Rx = append(h.Rx, h.Src)
			}
		}
		c.Hist = append(c.Hist, h)
	}
	sort.SliceStable(c.Hist, func(a, b int) bool { return c.Hist[a].At < c.Hist[b].At })
	return c
}

func c09Run(c vPipeCase) (v vVerdict) {
	if !c.valid() || !c.Lancero || c.Nchan%2 != 0 {
		return v
	}
	for _, h := range c.Hist {
		if h.Kind == "lengths" {
			return v
		}
		if h.Kind == "coupling" && (h.Coupling < 1 || h.Coupling > 3) {
			return v
		}
	}
	edits, invalidEdits := 0, 0
	vPipeAfterOp = func(ds *AnySource, h vHistOp, conn map[[2]int]bool) *vVerdict {
		if h.Kind == "trigger" {
			return nil
		}
		edits++
		for _, rx := range h.Rx {
			if h.Src < 0 || h.Src >= c.Nchan || rx < 0 || rx >= c.Nchan {
				invalidEdits++
			}
		}
		got := map[[2]int]int{}
		for src, rxs := range ds.ComputeGroupTriggerState().Connections {
			for _, rx := range rxs {
				got[[2]int{src, rx}]++
			}
		}
		for p, n := range got {
			if n > 1 {
				f := vFailf("reported-duplicate", "after %s: connection %d->%d is reported %d times", c09Op(h), p[0], p[1], n)
				return &f
			}
			if !conn[p] {
				f := vFailf("reported-extra", "after %s: reported state contains %d->%d, which the set-theoretic result does not (nchan %d); model %v",
					c09Op(h), p[0], p[1], c.Nchan, c09Pairs(conn))
				return &f
			}
		}
		for p := range conn {
			if got[p] == 0 {
				f := vFailf("reported-missing", "after %s: reported state lacks %d->%d; reported %v, model %v", c09Op(h), p[0], p[1], ds.ComputeGroupTriggerState().Connections, c09Pairs(conn))
				return &f
			}
		}
		return nil
	}
	defer func() { vPipeAfterOp = nil }()
	secondaries := 0
	emtToPlain := false
	afterDeleteOrRepeat := false
	seen := map[string]bool{}
	sawDelete := false
	_, fail := vRunPipe(&c, func(tr *vTrace, k int, recs []*DataRecord) *vVerdict {
		bi := tr.Blocks[k]
		want := make([]map[FrameIndex]int, c.Nchan)
		nsec := make([]int, c.Nchan)
		for ch := range want {
			want[ch] = map[FrameIndex]int{}
			for _, f := range bi.Primary[ch] {
				want[ch][f]++
			}
		}
		for p := range bi.Conn {
			for _, f := range bi.Primary[p[0]] {
				want[p[1]][f]++
				nsec[p[1]]++
				if bi.Trig[p[0]].EMT && !bi.Trig[p[1]].EMT {
					emtToPlain = true
				}
			}
		}
		got := make([]map[FrameIndex]int, c.Nchan)
		for ch := range got {
			got[ch] = map[FrameIndex]int{}
		}
		for _, r := range recs {
			if f := vCheckExcerpt(&c, tr, k, r); f != nil {
				return f
			}
			got[r.channelIndex][r.trigFrame]++
		}
		for ch := 0; ch < c.Nchan; ch++ {
			for f, n := range want[ch] {
				if got[ch][f] < n {
					fl := vFailf("secondary-missing", "cycle %d: channel %d has %d record(s) at frame %d, want %d (own primaries %v; model sources %v with primaries %v)",
						k, ch, got[ch][f], f, n, bi.Primary[ch], c09Sources(bi.Conn, ch), c09Prims(bi, c09Sources(bi.Conn, ch)))
					return &fl
				}
			}
			for f, n := range got[ch] {
				if want[ch][f] < n {
					fl := vFailf("secondary-extra", "cycle %d: channel %d has %d record(s) at frame %d, want %d (own primaries %v; model sources %v with primaries %v)",
						k, ch, n, f, want[ch][f], bi.Primary[ch], c09Sources(bi.Conn, ch), c09Prims(bi, c09Sources(bi.Conn, ch)))
					return &fl
				}
			}
			secondaries += nsec[ch]
			if nsec[ch] > 0 && (sawDelete || afterDeleteOrRepeat) {
				afterDeleteOrRepeat = true
			}
		}
		for _, h := range c.Hist {
			if h.At <= k {
				if h.Kind == "disconnect" || h.Kind == "stopcoupling" {
					sawDelete = true
				}
				key := fmt.Sprintf("%s %d %v", h.Kind, h.Src, h.Rx)
				if h.Kind == "connect" && seen[key] {
					sawDelete = true
				}
				seen[key] = true
			}
		}
		return nil
	})
	if fail != nil {
		return *fail
	}
	v.NonTrivial = secondaries > 0 && afterDeleteOrRepeat
	if secondaries > 0 {
		v.Classes = append(v.Classes, "secondaries-delivered")
	}
	if emtToPlain {
		v.Classes = append(v.Classes, "edge-multi-source-to-plain-receiver")
	}
	if invalidEdits > 0 {
		v.Classes = append(v.Classes, "out-of-range-index")
	}
	if len(c.Restored) > 0 {
		v.Classes = append(v.Classes, "restored-settings")
	}
	for _, h := range c.Hist {
		if h.Kind == "coupling" {
			v.Classes = append(v.Classes, "err-fb-coupling")
			break
		}
	}
	return v
}

func c09Op(h vHistOp) string {
	switch h.Kind {
	case "connect", "disconnect":
		return fmt.Sprintf("%s %d->%v", h.Kind, h.Src, h.Rx)
	case "coupling":
		return fmt.Sprintf("SetCoupling(%d)", h.Coupling)
	}
	return h.Kind
}

func c09Pairs(conn map[[2]int]bool) [][2]int {
	var out [][2]int
	for p := range conn {
		out = append(out, p)
	}
	sort.Slice(out, func(a, b int) bool { return out[a][0] < out[b][0] || (out[a][0] == out[b][0] && out[a][1] < out[b][1]) })
	return out
}

func c09Sources(conn map[[2]int]bool, rx int) []int {
	var out []int
	for p := range conn {
		if p[1] == rx {
			out = append(out, p[0])
		}
	}
	sort.Ints(out)
	return out
}

func c09Prims(bi vBlockInfo, srcs []int) [][]FrameIndex {
	var out [][]FrameIndex
	for _, s := range srcs {
		out = append(out, bi.Primary[s])
	}
	return out
}

func TestVerif_C09(t *testing.T) { vCheck(t, "C09", c09Gen, c09Run) }
