//go:build verif

package dastard

// TestMain and shared helpers for the checks that live in the root package.

import (
	"encoding/json"
	"io"
	"log"
	"os"
	"sync"
	"sync/atomic"
	"testing"
	"time"
)

var vClientHold int32

var (
	vClientMu   sync.Mutex
	vClientLog  []ClientUpdate // most recent client updates (bounded)
	vClientSeen int
)

func vDrainClientMessages() {
	for u := range clientMessageChan {
		for atomic.LoadInt32(&vClientHold) == 1 { // a status publisher that is busy for a while (the queue behind it fills up)
			time.Sleep(100 * time.Microsecond)
		}
		// like the real status publisher, the consumer reads what it was handed (RunClientUpdater marshals every message): an
		// object that dastard keeps changing after publishing it is then a data race the detector can see
		json.Marshal(u.state)
		vClientMu.Lock()
		vClientSeen++
		if len(vClientLog) >= 4096 {
			vClientLog = vClientLog[len(vClientLog)-2048:]
		}
		vClientLog = append(vClientLog, u)
		vClientMu.Unlock()
	}
}

// vTakeClientMessages returns and clears the logged client updates.
func vTakeClientMessages() []ClientUpdate {
	vClientMu.Lock()
	defer vClientMu.Unlock()
	out := vClientLog
	vClientLog = nil
	return out
}

func TestMain(m *testing.M) {
	vMain(m, func() {
		if os.Getenv("VERIF_VERBOSE") == "" {
			log.SetOutput(vLogWriter{})
			ProblemLogger = log.New(io.Discard, "", 0)
			UpdateLogger = log.New(io.Discard, "", 0)
		}
		if os.Getenv("VERIF_NO_GLOBAL_CHANNELS") == "" {
			// Large buffered publish channels: no ZMQ socket is opened unless a check wants one.
			PubRecordsChan = make(chan []*DataRecord, 1<<16)
			PubSummariesChan = make(chan []*DataRecord, 1<<16)
			go vDrainClientMessages()
		}
	})
}

// vLogWriter swallows the standard logger's output but lets a check use the code's own log lines as
// synchronisation points: the callback registered with vSetLogHook runs, in the logging goroutine, for every line.
type vLogWriter struct{}

var (
	vLogMu   sync.Mutex
	vLogHook func(line string)
)

func vSetLogHook(f func(line string)) {
	vLogMu.Lock()
	vLogHook = f
	vLogMu.Unlock()
}

func (vLogWriter) Write(p []byte) (int, error) {
	vLogMu.Lock()
	h := vLogHook
	vLogMu.Unlock()
	if h != nil {
		h(string(p))
	}
	return len(p), nil
}

// vDrainRecords empties both publish channels and returns what was on the records channel.
func vDrainRecords() (recs []*DataRecord) {
	for {
		select {
		case r := <-PubRecordsChan:
			recs = append(recs, r...)
		case <-PubSummariesChan:
		default:
			return recs
		}
	}
}
