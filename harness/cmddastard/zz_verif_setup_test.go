//go:build verif

package main

// The start-up half of C16's crash check: run as a child with VERIF_C16_SETUP=<home directory>, this test binary performs
// the real setupViper() of cmd/dastard on that home directory (whatever it does to the files there is what the next
// start of dastard would do) and reports whether it succeeded.

import (
	"fmt"
	"os"
	"testing"
)

func TestMain(m *testing.M) {
	if home := os.Getenv("VERIF_C16_SETUP"); home != "" {
		os.Setenv("HOME", home)
		if err := setupViper(); err != nil {
			fmt.Println("SETUP-ERROR:", err)
			os.Exit(3)
		}
		fmt.Println("SETUP-OK")
		os.Exit(0)
	}
	vMain(m, nil)
}

func TestVerif_Nothing(t *testing.T) {}
